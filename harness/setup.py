"""MANIFEST.setup_cmd: offline; parses every specification with SANY and checks the interpreter can import /repo."""
import glob
import os
import sys
from concurrent.futures import ThreadPoolExecutor

from harness import tlc
from harness.common import use_repo, VERIF


def main():
    mods = sorted(os.path.basename(p)[:-4] for p in glob.glob(os.path.join(tlc.SPEC, '*.tla')))
    bad = 0
    with ThreadPoolExecutor(8) as ex:
        for m, (ok, out) in zip(mods, ex.map(tlc.sany, mods)):
            if not ok:
                bad += 1
                print('SANY FAILED', m)
                print(out[-2000:])
    print('parsed %d specification modules, %d failed' % (len(mods), bad))
    use_repo()
    os.makedirs(os.path.join(VERIF, 'evidence'), exist_ok=True)
    os.makedirs(os.path.join(VERIF, 'replays'), exist_ok=True)
    return 1 if bad else 0


if __name__ == '__main__':
    sys.exit(main())
