"""Test CA and origin certificates for C11 (generated with the system openssl into /verif/fixtures/tls, untracked)."""
import os
import subprocess

from harness.common import VERIF

DIR = os.path.join(VERIF, 'fixtures', 'tls')


def sh(*a, **k):
    r = subprocess.run(a, stdout=subprocess.PIPE, stderr=subprocess.STDOUT, **k)
    if r.returncode != 0:
        raise RuntimeError('%s failed: %s' % (' '.join(a), r.stdout.decode()[-400:]))
    return r.stdout


def ensure():
    marker = os.path.join(DIR, 'ok-v3')
    if os.path.exists(marker):
        return DIR
    import shutil
    shutil.rmtree(DIR, ignore_errors=True)
    os.makedirs(DIR)
    p = lambda n: os.path.join(DIR, n)     # noqa
    # the proxy's interception CA
    sh('openssl', 'genrsa', '-out', p('ca-key.pem'), '2048')
    sh('openssl', 'req', '-x509', '-new', '-key', p('ca-key.pem'), '-days', '3650', '-subj', '/CN=verif interception CA', '-out', p('ca-cert.pem'),
       '-addext', 'basicConstraints=critical,CA:TRUE')
    sh('openssl', 'genrsa', '-out', p('ca-signing-key.pem'), '2048')
    # the CA the proxy trusts for upstream connections (--ca-file)
    sh('openssl', 'genrsa', '-out', p('octa-key.pem'), '2048')
    sh('openssl', 'req', '-x509', '-new', '-key', p('octa-key.pem'), '-days', '3650', '-subj', '/CN=verif origin CA', '-out', p('octa-cert.pem'),
       '-addext', 'basicConstraints=critical,CA:TRUE')
    # a minimal 'openssl ca' setup (needed for a certificate that is already expired)
    os.makedirs(p('cadir'))
    open(p('cadir/index.txt'), 'w').close()
    open(p('cadir/serial'), 'w').write('1000\n')
    open(p('ca.cnf'), 'w').write('''[ca]
default_ca = d
[d]
dir = %s
database = $dir/index.txt
new_certs_dir = $dir
serial = $dir/serial
default_md = sha256
policy = pol
copy_extensions = copy
unique_subject = no
[pol]
commonName = supplied
''' % p('cadir'))

    def leaf(name, san, signer='octa', start=None, end=None):
        sh('openssl', 'genrsa', '-out', p(name + '-key.pem'), '2048')
        if signer == 'self':
            sh('openssl', 'req', '-x509', '-new', '-key', p(name + '-key.pem'), '-days', '365', '-subj', '/CN=' + name, '-out', p(name + '-cert.pem'),
               '-addext', 'subjectAltName=' + san)
            return
        sh('openssl', 'req', '-new', '-key', p(name + '-key.pem'), '-subj', '/CN=' + name, '-out', p(name + '.csr'), '-addext', 'subjectAltName=' + san)
        args = ['openssl', 'ca', '-batch', '-config', p('ca.cnf'), '-cert', p('octa-cert.pem'), '-keyfile', p('octa-key.pem'), '-in', p(name + '.csr'),
                '-out', p(name + '-cert.pem'), '-notext']
        if start:
            args += ['-startdate', start, '-enddate', end]
        else:
            args += ['-days', '365']
        sh(*args)
    leaf('trusted', 'DNS:localhost,IP:127.0.0.1,IP:::1')
    leaf('wrongname', 'DNS:other.example,IP:192.0.2.77,IP:2001:db8::77')
    leaf('selfsigned', 'DNS:localhost,IP:127.0.0.1,IP:::1', signer='self')
    leaf('expired', 'DNS:localhost,IP:127.0.0.1,IP:::1', start='20200101000000Z', end='20210101000000Z')
    open(marker, 'w').write('ok')
    return DIR
