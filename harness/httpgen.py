"""Grammar-directed generator of HTTP/1.x messages (input selection only; nothing here judges anything).

Every message is produced from an abstract case (method x target form x version x header variants x framing x
body x trailing bytes) so that the evidence can say which classes were covered.  The reference semantics that
decides what each message MEANS is spec/Http.tla, evaluated by TLC on the bytes.
"""
import random

METHODS = [b'GET', b'POST', b'PUT', b'DELETE', b'OPTIONS', b'HEAD', b'PATCH']
HOSTS = [b'h.example', b'a.b.c.example.org', b'127.0.0.1', b'10.1.2.3', b'[::1]', b'[2001:db8::7]', b'xn--bcher-kva.example']
PATHS = [b'/', b'/x', b'/a/b/c.html', b'/p?q=1&r=%20', b'/a%2Fb;c=d?e=f:g', b'/~u/@v/$w,x']
HDR_NAMES = [b'X-A', b'User-Agent', b'Accept', b'X-Long-Header-Name', b'Cookie', b'X-B']
HDR_VALUES = [b'1', b'a b  c', b'v:w:x', b'text/html, */*;q=0.8', b'k=v; k2="q, r"', b'\xc3\xa9t\xc3\xa9',
              b'caf\xe9 \xff\xfe obs-text']        # field values may carry obs-text (RFC 7230 3.2.6): bytes that are not UTF-8
CASINGS = [lambda n: n, lambda n: n.lower(), lambda n: n.upper(), lambda n: n.swapcase()]
OWS = [(b' ', b''), (b'', b''), (b'  ', b' '), (b'\t', b'\t ')]
TRAILING = [b'', b'X', b'\r\n', b'GET /next HT', b'GET /next HTTP/1.1\r\nHost: n\r\n\r\n', b'\x00\xff0\r\n\r\n']


def body_bytes(rnd, n):
    kind = rnd.randrange(4)
    if kind == 0:
        return bytes(rnd.getrandbits(8) for _ in range(n))
    if kind == 1:
        return (b'0\r\n\r\n1;x\r\nab\r\n' * (n // 8 + 1))[:n]       # bodies that look like chunk syntax
    if kind == 2:
        return (b'\r\n\r\nHTTP/1.1 200 OK\r\n' * (n // 8 + 1))[:n]  # bodies that look like message heads
    return bytes((65 + i % 26) for i in range(n))


def chunked(rnd, body, layout, ext=False, trailer=False, upper=False, lead0=False):
    """layout: list of chunk sizes summing to len(body)."""
    out = b''
    pos = 0
    for k in layout:
        size = (b'%X' if upper else b'%x') % k
        if lead0:
            size = b'0' + size
        out += size + (b';name=val' if ext else b'') + b'\r\n' + body[pos:pos + k] + b'\r\n'
        pos += k
    out += b'0' + (b';last' if ext else b'') + b'\r\n'
    if trailer:
        out += b'X-Trailer: t\r\nX-T2:u\r\n'
    return out + b'\r\n'


def layouts(n, rnd):
    if n == 0:
        return [[]]
    out = [[n]]
    if n >= 2:
        a = rnd.randrange(1, n)
        out.append([a, n - a])
    if n >= 3:
        out.append([1] * n if n <= 6 else [1, n - 2, 1])
    return out


def headers(rnd, k, extra=()):
    names = rnd.sample(HDR_NAMES, k)
    hs = [(CASINGS[rnd.randrange(4)](n), rnd.choice(HDR_VALUES)) for n in names] + list(extra)
    rnd.shuffle(hs)
    return hs


def render_headers(rnd, hs):
    out = b''
    for n, v in hs:
        pre, post = OWS[rnd.randrange(4)]
        out += n + b':' + pre + v + post + b'\r\n'
    return out


def request(rnd, framing, nbody=0, trailing=b'', form=None, method=None, nh=None, chunk_opts=None):
    """-> (bytes, case description)"""
    form = form or rnd.choice(['absolute', 'absolute-port', 'origin', 'authority'])
    host = rnd.choice(HOSTS)
    if form == 'authority':
        method = b'CONNECT'
        port = rnd.choice([443, 8443, 1])
        target = host + b':%d' % port
    else:
        method = method or rnd.choice(METHODS)
        if form == 'origin':
            target = rnd.choice(PATHS)
        else:
            target = b'http://' + (b'u:p@' if rnd.random() < .15 else b'') + host + \
                (b':%d' % rnd.choice([80, 8080, 65535]) if form == 'absolute-port' else b'') + rnd.choice(PATHS + [b''])
    version = rnd.choice([b'HTTP/1.1', b'HTTP/1.1', b'HTTP/1.0'])
    nh = rnd.randrange(0, 4) if nh is None else nh
    extra = []
    body = body_bytes(rnd, nbody)
    desc = {'kind': 'req', 'form': form, 'framing': framing, 'nbody': nbody, 'nh': nh, 'trailing': len(trailing)}
    if framing == 'cl':
        extra.append((CASINGS[rnd.randrange(4)](b'Content-Length'), b'%d' % nbody))
        payload = body
    elif framing == 'chunked':
        extra.append((CASINGS[rnd.randrange(4)](b'Transfer-Encoding'), rnd.choice([b'chunked', b'Chunked', b'CHUNKED'])))
        o = chunk_opts or {}
        lay = o.get('layout') or rnd.choice(layouts(nbody, rnd))
        payload = chunked(rnd, body, lay, ext=o.get('ext', False), trailer=o.get('trailer', False), upper=o.get('upper', False),
                          lead0=o.get('lead0', False))
        desc.update({'layout': lay, 'ext': o.get('ext', False), 'trailer': o.get('trailer', False)})
    else:
        payload = b''
    hs = headers(rnd, nh, extra)
    raw = method + b' ' + target + b' ' + version + b'\r\n' + render_headers(rnd, hs) + b'\r\n' + payload + trailing
    return raw, desc


def response(rnd, framing, nbody=0, trailing=b'', nh=None, chunk_opts=None, headerless=False):
    version = rnd.choice([b'HTTP/1.1', b'HTTP/1.0'])
    code, reason = rnd.choice([(b'200', b'OK'), (b'404', b'Not Found'), (b'200', b'Connection established'), (b'301', b''),
                               (b'599', b'A b  c')])
    line = version + b' ' + code + (b' ' + reason if reason else b'') + b'\r\n'
    desc = {'kind': 'res', 'framing': framing, 'nbody': nbody, 'trailing': len(trailing)}
    if headerless:
        desc['framing'] = 'headerless'
        return line + b'\r\n', desc
    nh = rnd.randrange(0, 4) if nh is None else nh
    body = body_bytes(rnd, nbody)
    extra = []
    if framing == 'cl':
        extra.append((CASINGS[rnd.randrange(4)](b'Content-Length'), b'%d' % nbody))
        payload = body
    else:
        extra.append((CASINGS[rnd.randrange(4)](b'Transfer-Encoding'), rnd.choice([b'chunked', b'Chunked'])))
        o = chunk_opts or {}
        lay = o.get('layout') or rnd.choice(layouts(nbody, rnd))
        payload = chunked(rnd, body, lay, ext=o.get('ext', False), trailer=o.get('trailer', False), upper=o.get('upper', False),
                          lead0=o.get('lead0', False))
        desc.update({'layout': lay, 'ext': o.get('ext', False), 'trailer': o.get('trailer', False)})
    desc['nh'] = nh
    hs = headers(rnd, nh, extra)
    return line + render_headers(rnd, hs) + b'\r\n' + payload + trailing, desc


def chunk_stream(rnd, nbody, trailing=b'', chunk_opts=None):
    o = chunk_opts or {}
    body = body_bytes(rnd, nbody)
    lay = o.get('layout') or rnd.choice(layouts(nbody, rnd))
    raw = chunked(rnd, body, lay, ext=o.get('ext', False), trailer=o.get('trailer', False), upper=o.get('upper', False),
                  lead0=o.get('lead0', False))
    return raw + trailing, {'kind': 'chunk', 'framing': 'chunked', 'nbody': nbody, 'layout': lay, 'ext': o.get('ext', False),
                            'trailer': o.get('trailer', False), 'trailing': len(trailing)}


def corpus(seed, scale):
    """Deterministic corpus.  scale 1 = quick (~ a few hundred messages)."""
    rnd = random.Random(seed)
    out = []
    copts = [{}, {'ext': True}, {'trailer': True}, {'ext': True, 'trailer': True, 'upper': True}, {'lead0': True}]
    for rep in range(scale):
        # body-less requests and header-less status lines: no trailing bytes (the property excludes them)
        for form in ('absolute', 'absolute-port', 'origin', 'authority'):
            for nh in (0, 1, 3):
                out.append(request(rnd, 'none', form=form, nh=nh))
        for _ in range(3):
            out.append(response(rnd, 'none', headerless=True))
        # Content-Length framing x trailing bytes
        for n in (0, 1, 2, 3, 7, 40):
            for tr in TRAILING:
                out.append(request(rnd, 'cl', nbody=n, trailing=tr, form=rnd.choice(['absolute', 'origin', 'absolute-port'])))
                out.append(response(rnd, 'cl', nbody=n, trailing=tr))
        # chunked framing x layouts x options x trailing bytes
        for n in (0, 1, 2, 5, 17, 33):
            for o in copts:
                tr = rnd.choice(TRAILING)
                out.append(request(rnd, 'chunked', nbody=n, trailing=tr, chunk_opts=o, form=rnd.choice(['absolute', 'origin'])))
                out.append(response(rnd, 'chunked', nbody=n, trailing=tr, chunk_opts=o))
                out.append(chunk_stream(rnd, n, trailing=rnd.choice(TRAILING), chunk_opts=o))
        for tr in TRAILING:
            out.append(chunk_stream(rnd, 4, trailing=tr, chunk_opts={'layout': [2, 2]}))
            out.append(response(rnd, 'chunked', nbody=3, trailing=tr, chunk_opts={'layout': [1, 1, 1]}, nh=0))
    return out
