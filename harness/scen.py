"""Lock-step conversations through the REAL handler stack on SimNet (forward proxy, tunnel, web server, reverse proxy).

A conversation is a list of steps; after every step the world is run to quiescence (the executor keeps being
scheduled, every peer reads what it was sent), so the outcome is deterministic and what is recorded is a function
of the script.  Steps:
   ('c', bytes)            the client writes bytes (as one segment; split a message into several steps to segment it)
   ('u', k, bytes)         upstream number k (1-based, in connect order) writes bytes
   ('cshut',) ('cclose',) ('creset',)      client half-closes / closes / resets
   ('ushut', k) ('uclose', k) ('ureset', k)
   ('tick', n)             n extra loop iterations
   ('advance', secs)       virtual clock
   ('reap',)               the executor's periodic inactive sweep
Nothing here judges anything: the transcript goes to a trace specification.
"""
from harness import simdrive


class Conversation:
    def __init__(self, args=(), flag_opts=None, cap=1 << 20, origins=None, default_origin='accept', hook_log=None, threaded=False):
        klass = simdrive.ThreadedSim if threaded else simdrive.Sim
        self.sim = klass(args=args, flag_opts=flag_opts, cap=cap, origins=origins, default_origin=default_origin)
        self.clients = []
        self.hook_log = hook_log

    def client(self, addr=('192.0.2.7', 40000)):
        c = self.sim.accept(addr=addr)
        self.clients.append(c)
        self.sim.tick()
        return c

    def peers(self):
        return [p for p in self.clients + self.sim.upstreams if not p.closed]

    def settle(self, max_ticks=300):
        ps = self.peers()
        ok = self.sim.quiesce(readers=ps, pumpers=ps, max_ticks=max_ticks)
        # upstreams that appeared during the drain have not been read yet
        if len(self.peers()) != len(ps):
            ps = self.peers()
            ok = self.sim.quiesce(readers=ps, pumpers=ps, max_ticks=max_ticks)
        return ok

    def step(self, st, c=None):
        c = c or self.clients[0]
        k = st[0]
        ups = self.sim.upstreams
        if k == 'c':
            c.write(st[1])
        elif k == 'u':
            if len(ups) >= st[1]:
                ups[st[1] - 1].write(st[2])
        elif k == 'cshut':
            c.shut_wr()
        elif k == 'cclose':
            c.close()
        elif k == 'creset':
            c.reset()
        elif k in ('ushut', 'uclose', 'ureset'):
            if len(ups) >= st[1]:
                getattr(ups[st[1] - 1], {'ushut': 'shut_wr', 'uclose': 'close', 'ureset': 'reset'}[k])()
        elif k == 'tick':
            self.sim.tick(st[1])
            return
        elif k == 'advance':
            self.sim.world.now += st[1]
            return
        elif k == 'reap':
            self.sim.reap()
        self.settle()

    def run(self, steps, c=None):
        for st in steps:
            self.step(st, c)
        return self.transcript()

    def transcript(self):
        s = self.sim
        return {
            'clients': [{'got': bytes(p.got), 'eof': p.eof_seen, 'reset': p.reset_seen} for p in self.clients],
            'upstreams': [{'addr': list(p.addr) if p.addr else None, 'got': bytes(p.got), 'eof': p.eof_seen, 'reset': p.reset_seen}
                          for p in s.upstreams],
            'connects': list(s.world.connects),
            'alive': s.alive,
            'loop_error': repr(s.loop_error) if s.loop_error else None,
            'works': len(s.ex.works),
        }


def pieces(raw, rnd, style):
    """Cut a message into segments: 'one', 'two', 'few', 'bytes' (one byte per segment), 'crlf' (cuts inside line ends)."""
    n = len(raw)
    if style == 'one' or n < 2:
        return [raw]
    if style == 'bytes':
        return [raw[i:i + 1] for i in range(n)]
    if style == 'two':
        a = rnd.randrange(1, n)
        return [raw[:a], raw[a:]]
    if style == 'crlf':
        cuts = sorted({i + 1 for i in range(n - 1) if raw[i:i + 2] == b'\r\n'} & set(range(1, n)))
        cuts = sorted(rnd.sample(cuts, min(len(cuts), rnd.randrange(1, 4)))) if cuts else [rnd.randrange(1, n)]
    else:
        cuts = sorted(rnd.sample(range(1, n), min(n - 1, rnd.randrange(2, 6))))
    out, prev = [], 0
    for c in cuts + [n]:
        out.append(raw[prev:c])
        prev = c
    return [p for p in out if p]
