"""Plugin classes synthesised for the checks (ordinary users of the documented plugin API)."""
import random

_CACHE = {}


def exact_response(total, seed):
    """A well-formed 'Connection: close' response of exactly `total` bytes."""
    r = random.Random(seed)
    body = bytes(r.getrandbits(8) for _ in range(min(total, 4096)))
    body = (body * (total // max(1, len(body)) + 1))[:total]
    for pad in range(0, 40):
        for blen in range(max(0, total - 120), total):
            m = b'HTTP/1.1 418 Teapot\r\nX-Pad: ' + b'p' * pad + b'\r\nContent-Length: %d\r\nConnection: close\r\n\r\n' % blen + body[:blen]
            if len(m) == total:
                return m
    raise ValueError('cannot build a response of %d bytes' % total)


def reject_plugin(total, pieces, seed):
    """HttpProxyBasePlugin whose before_upstream_connection rejects the request with a proxy-made response of exactly
    `total` bytes, handed to the client connection in `pieces` pieces (the last one via the exception's response())."""
    key = ('reject', total, pieces, seed)
    if key in _CACHE:
        return _CACHE[key]
    from proxy.http.proxy import HttpProxyBasePlugin
    from proxy.http.exception import HttpProtocolException
    msg = exact_response(total, seed)
    size = total // pieces
    cuts = [msg[i * size:(i + 1) * size] for i in range(pieces - 1)] + [msg[(pieces - 1) * size:]]

    class Rejected(HttpProtocolException):
        def response(self, request):
            return memoryview(cuts[-1])

    class RejectPlugin(HttpProxyBasePlugin):
        PAYLOAD = msg

        def before_upstream_connection(self, request):
            for part in cuts[:-1]:
                self.client.queue(memoryview(part))
            raise Rejected('rejected by test plugin')
    RejectPlugin.__name__ = RejectPlugin.__qualname__ = 'RejectPlugin_%d_%d_%d' % (total, pieces, seed)
    _CACHE[key] = RejectPlugin
    return RejectPlugin


def recording_plugin(log, tag='P'):
    """HttpProxyBasePlugin that passes everything through and appends (tag, hook) to `log` for every
    request-handling hook that runs."""
    key = ('rec', id(log), tag)
    if key in _CACHE:
        return _CACHE[key]
    from proxy.http.proxy import HttpProxyBasePlugin

    class Recorder(HttpProxyBasePlugin):
        def resolve_dns(self, host, port):
            log.append((tag, 'resolve_dns'))
            return None, None

        def before_upstream_connection(self, request):
            log.append((tag, 'before_upstream_connection'))
            return request

        def handle_client_request(self, request):
            log.append((tag, 'handle_client_request'))
            return request

        def handle_client_data(self, raw):
            log.append((tag, 'handle_client_data'))
            return raw

        def handle_upstream_chunk(self, chunk):
            log.append((tag, 'handle_upstream_chunk'))
            return chunk

        def on_upstream_connection_close(self):
            log.append((tag, 'on_upstream_connection_close'))

        def on_access_log(self, context):
            log.append((tag, 'on_access_log'))
            return context
    Recorder.__name__ = Recorder.__qualname__ = 'Recorder_%s_%d' % (tag, len(_CACHE))
    _CACHE[key] = Recorder
    return Recorder
