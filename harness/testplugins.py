"""Plugin classes synthesised for the checks (ordinary users of the documented plugin API)."""
import random

_CACHE = {}


def exact_response(total, seed):
    """A well-formed 'Connection: close' response of exactly `total` bytes."""
    r = random.Random(seed)
    body = bytes(r.getrandbits(8) for _ in range(min(total, 4096)))
    body = (body * (total // max(1, len(body)) + 1))[:total]
    for pad in range(0, 40):
        for blen in range(max(0, total - 120), total):
            m = b'HTTP/1.1 418 Teapot\r\nX-Pad: ' + b'p' * pad + b'\r\nContent-Length: %d\r\nConnection: close\r\n\r\n' % blen + body[:blen]
            if len(m) == total:
                return m
    raise ValueError('cannot build a response of %d bytes' % total)


def reject_plugin(total, pieces, seed):
    """HttpProxyBasePlugin whose before_upstream_connection rejects the request with a proxy-made response of exactly
    `total` bytes, handed to the client connection in `pieces` pieces (the last one via the exception's response())."""
    key = ('reject', total, pieces, seed)
    if key in _CACHE:
        return _CACHE[key]
    from proxy.http.proxy import HttpProxyBasePlugin
    from proxy.http.exception import HttpProtocolException
    msg = exact_response(total, seed)
    size = total // pieces
    cuts = [msg[i * size:(i + 1) * size] for i in range(pieces - 1)] + [msg[(pieces - 1) * size:]]

    class Rejected(HttpProtocolException):
        def response(self, request):
            return memoryview(cuts[-1])

    class RejectPlugin(HttpProxyBasePlugin):
        PAYLOAD = msg

        def before_upstream_connection(self, request):
            for part in cuts[:-1]:
                self.client.queue(memoryview(part))
            raise Rejected('rejected by test plugin')
    RejectPlugin.__name__ = RejectPlugin.__qualname__ = 'RejectPlugin_%d_%d_%d' % (total, pieces, seed)
    _CACHE[key] = RejectPlugin
    return RejectPlugin
