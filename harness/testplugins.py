"""Plugin classes synthesised for the checks (ordinary users of the documented plugin API)."""
import random

_CACHE = {}


def exact_response(total, seed):
    """A well-formed 'Connection: close' response of exactly `total` bytes."""
    r = random.Random(seed)
    body = bytes(r.getrandbits(8) for _ in range(min(total, 4096)))
    body = (body * (total // max(1, len(body)) + 1))[:total]
    for pad in range(0, 40):
        for blen in range(max(0, total - 120), total):
            m = b'HTTP/1.1 418 Teapot\r\nX-Pad: ' + b'p' * pad + b'\r\nContent-Length: %d\r\nConnection: close\r\n\r\n' % blen + body[:blen]
            if len(m) == total:
                return m
    raise ValueError('cannot build a response of %d bytes' % total)


def reject_plugin(total, pieces, seed):
    """HttpProxyBasePlugin whose before_upstream_connection rejects the request with a proxy-made response of exactly
    `total` bytes, handed to the client connection in `pieces` pieces (the last one via the exception's response())."""
    key = ('reject', total, pieces, seed)
    if key in _CACHE:
        return _CACHE[key]
    from proxy.http.proxy import HttpProxyBasePlugin
    from proxy.http.exception import HttpProtocolException
    msg = exact_response(total, seed)
    size = total // pieces
    cuts = [msg[i * size:(i + 1) * size] for i in range(pieces - 1)] + [msg[(pieces - 1) * size:]]

    class Rejected(HttpProtocolException):
        def response(self, request):
            return memoryview(cuts[-1])

    class RejectPlugin(HttpProxyBasePlugin):
        PAYLOAD = msg

        def before_upstream_connection(self, request):
            for part in cuts[:-1]:
                self.client.queue(memoryview(part))
            raise Rejected('rejected by test plugin')
    RejectPlugin.__name__ = RejectPlugin.__qualname__ = 'RejectPlugin_%d_%d_%d' % (total, pieces, seed)
    _CACHE[key] = RejectPlugin
    return RejectPlugin


def recording_plugin(log, tag='P'):
    """HttpProxyBasePlugin that passes everything through and appends (tag, hook) to `log` for every
    request-handling hook that runs."""
    key = ('rec', id(log), tag)
    if key in _CACHE:
        return _CACHE[key]
    from proxy.http.proxy import HttpProxyBasePlugin

    class Recorder(HttpProxyBasePlugin):
        def resolve_dns(self, host, port):
            log.append((tag, 'resolve_dns'))
            return None, None

        def before_upstream_connection(self, request):
            log.append((tag, 'before_upstream_connection'))
            return request

        def handle_client_request(self, request):
            log.append((tag, 'handle_client_request'))
            return request

        def handle_client_data(self, raw):
            log.append((tag, 'handle_client_data'))
            return raw

        def handle_upstream_chunk(self, chunk):
            log.append((tag, 'handle_upstream_chunk'))
            return chunk

        def on_upstream_connection_close(self):
            log.append((tag, 'on_upstream_connection_close'))

        def on_access_log(self, context):
            log.append((tag, 'on_access_log'))
            return context
    Recorder.__name__ = Recorder.__qualname__ = 'Recorder_%s_%d' % (tag, len(_CACHE))
    _CACHE[key] = Recorder
    return Recorder


def program_plugins(prog, log):
    """Recording plugin classes synthesised from a PluginChain program (spec/PluginChain.tla): prog[p-1] is a dict
    {buc, hcr, huc, log}.  Every hook appends {p, h, seen} to `log`; what it then does is what the program says.
    Request modifications are header tags 'X-Tag-<p>-<hook>', response modifications replace the p-th '_' of the body."""
    from proxy.http.proxy import HttpProxyBasePlugin
    from proxy.http.exception import HttpRequestRejected
    import re
    tagre = re.compile(rb'^x-tag-(\d+)-(\w+)$')

    def seen_tags(request):
        out = []
        for k in (request.headers or {}):
            m = tagre.match(k)
            if m:
                out.append([int(m.group(1)), m.group(2).decode()])
        return out

    def tagged(p, request, name):
        # odd-numbered plugins hand back a NEW request object (the hooks may "return optionally modified request object"),
        # even-numbered ones modify the object they were given: the chain must carry on with whatever was returned
        if p % 2 == 1:
            import copy
            request = copy.copy(request)
            request.headers = dict(request.headers or {})
        request.add_header(name, b'1')
        return request

    def make(p, beh):
        class Prog(HttpProxyBasePlugin):
            def __init__(self, *a, **kw):
                super().__init__(*a, **kw)
                self.nhcr = 0

            def resolve_dns(self, host, port):
                log.append({'p': p, 'h': 'dns', 'seen': []})
                if beh.get('dns') == 'ip':
                    return '10.9.0.%d' % p, None
                return None, None

            def before_upstream_connection(self, request):
                log.append({'p': p, 'h': 'buc', 'seen': seen_tags(request)})
                b = beh['buc']
                if b == 'mod':
                    return tagged(p, request, b'X-Tag-%d-buc' % p)
                elif b == 'drop':
                    return None
                elif b == 'rej':
                    raise HttpRequestRejected(status_code=418, reason=b'R-%d-buc' % p, body=b'rejected by %d' % p)
                return request

            def handle_client_request(self, request):
                log.append({'p': p, 'h': 'hcr', 'seen': seen_tags(request)})
                self.nhcr += 1
                b = beh['hcr']
                if b == 'mod':
                    return tagged(p, request, b'X-Tag-%d-hcr' % p)
                elif b == 'drop' or (b == 'drop2' and self.nhcr == 2):
                    return None
                elif b == 'rej':
                    raise HttpRequestRejected(status_code=418, reason=b'R-%d-hcr' % p, body=b'rejected by %d' % p)
                return request

            def handle_client_data(self, raw):
                log.append({'p': p, 'h': 'hcd', 'seen': []})
                return None if beh.get('hcd') == 'drop' else raw

            def handle_upstream_chunk(self, chunk):
                raw = bytes(chunk)
                body = raw.rsplit(b'\r\n\r\n', 1)[-1]
                log.append({'p': p, 'h': 'huc', 'seen': [int(chr(c)) for c in body if chr(c).isdigit()]})
                b = beh['huc']
                if b == 'mod':
                    head, _, body = raw.rpartition(b'\r\n\r\n')
                    body = body[:p - 1] + b'%d' % p + body[p:]
                    return memoryview(head + b'\r\n\r\n' + body)
                if b == 'drop':
                    return None
                return chunk

            def on_access_log(self, context):
                log.append({'p': p, 'h': 'log', 'seen': []})
                return None if beh['log'] == 'none' else context

            def on_upstream_connection_close(self):
                log.append({'p': p, 'h': 'close', 'seen': []})
        Prog.__name__ = Prog.__qualname__ = 'Prog_%d_%d' % (p, id(log))
        return Prog
    return [make(i + 1, b) for i, b in enumerate(prog)]


def ws_echo_plugin():
    """A web-server route plugin that upgrades /ws to WebSocket and echoes every frame back (same opcode, unmasked, FIN)."""
    from proxy.http.server import HttpWebServerBasePlugin, httpProtocolTypes
    from proxy.http.websocket import WebsocketFrame

    class WsEcho(HttpWebServerBasePlugin):
        def routes(self):
            return [(httpProtocolTypes.WEBSOCKET, r'/ws$')]

        def handle_request(self, request):
            from proxy.http.responses import NOT_FOUND_RESPONSE_PKT
            self.client.queue(NOT_FOUND_RESPONSE_PKT)

        def on_websocket_message(self, frame):
            out = WebsocketFrame()
            out.fin = True
            out.opcode = frame.opcode
            out.data = frame.data
            self.client.queue(memoryview(out.build()))
    return WsEcho


def ws_sink_plugin():
    """A web-server route plugin that upgrades /ws to WebSocket and swallows every frame (no output: an adversary that makes the
    frame loop spin must not make the process grow as well)."""
    from proxy.http.server import HttpWebServerBasePlugin, httpProtocolTypes

    class WsSink(HttpWebServerBasePlugin):
        def routes(self):
            return [(httpProtocolTypes.WEBSOCKET, r'/ws$')]

        def handle_request(self, request):
            from proxy.http.responses import NOT_FOUND_RESPONSE_PKT
            self.client.queue(NOT_FOUND_RESPONSE_PKT)

        def on_websocket_message(self, frame):
            pass
    return WsSink
