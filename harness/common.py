"""Plumbing shared by all checks: seeds, evidence, known findings, replay files, exit codes.

Exit codes: 0 = property held on everything explored (known findings are printed, not alarmed),
            1 = at least one violation that known_findings.json does not list (VIOLATION line printed),
            2 = machinery failure (TLC/SANY/JVM error, harness exception) - never printed as VIOLATION.
"""
import hashlib
import json
import os
import sys
import time
import traceback

VERIF = os.path.dirname(os.path.dirname(os.path.abspath(__file__)))
REPO = os.environ.get('VERIF_REPO', '/repo')
EVIDENCE = os.path.join(VERIF, 'evidence')
REPLAYS = os.path.join(VERIF, 'replays')
FINDINGS = os.path.join(VERIF, 'known_findings.json')


def seed():
    try:
        return int(os.environ.get('VERIF_SEED', '0'))
    except ValueError:
        return 0


def use_repo():
    """Make `import proxy` resolve to the working tree under test and switch the guard on."""
    os.environ['PROXY_PY_VERIF'] = '1'
    os.environ.setdefault('PYTHONHASHSEED', '0')
    if REPO not in sys.path:
        sys.path.insert(0, REPO)
    import proxy  # noqa
    got = os.path.dirname(os.path.dirname(os.path.abspath(proxy.__file__)))
    if os.path.realpath(got) != os.path.realpath(REPO):
        raise MachineryError('proxy imported from %s, expected %s' % (got, REPO))


class MachineryError(Exception):
    pass


def load_findings():
    if not os.path.exists(FINDINGS):
        return {'known': [], 'fixed': []}
    with open(FINDINGS) as f:
        return json.load(f)


def match_known(pid, sig, findings=None):
    """A known finding matches when every key of its signature equals the violation's signature."""
    findings = findings or load_findings()
    for k in findings.get('known', []):
        if k.get('property') != pid:
            continue
        s = k.get('signature', {})
        if s and all(sig.get(a) == b for a, b in s.items()):
            return k
    return None


class Check:
    def __init__(self, pid, tier, level='model_checking'):
        self.pid = pid
        self.tier = tier
        self.level = level
        self.t0 = time.time()
        self.seed = seed()
        self.cov = {'states': 0, 'transitions': 0, 'traces_validated_against_impl': 0, 'samples': [],
                    'exhaustive': False, 'tlc_runs': []}
        self.assumptions = []
        self.violations = []      # (sig, what, replay_obj)
        self.known = []
        self.notes = []

    # -- bookkeeping ------------------------------------------------------------------------
    def add_tlc(self, name, res, exhaustive=None):
        self.cov['states'] += res.distinct
        self.cov['transitions'] += res.generated
        self.cov['tlc_runs'].append({'run': name, 'distinct_states': res.distinct, 'states_generated': res.generated,
                                     'status': res.status, 'wall_s': round(res.wall, 1)})
        if exhaustive is not None:
            self.cov['exhaustive'] = bool(exhaustive) if not self.cov['tlc_runs'][:-1] else \
                (self.cov['exhaustive'] and bool(exhaustive))

    def require_ok(self, name, res):
        """A design-level TLC run (the model itself): anything but 'ok' is a machinery failure."""
        if res.status != 'ok':
            raise MachineryError('TLC run %s did not succeed:\n%s' % (name, res.brief()))

    def sample(self, obj, limit=6):
        if len(self.cov['samples']) < limit:
            self.cov['samples'].append(obj)

    def traces(self, n):
        self.cov['traces_validated_against_impl'] += n

    def assume(self, *texts):
        self.assumptions.extend(texts)

    def violation(self, sig, what, replay=None):
        """sig: abstract description of the failing case (dict, JSON-able, used for known-finding matching)."""
        self.violations.append((sig, what, replay))

    # -- finish -----------------------------------------------------------------------------
    def finish(self):
        findings = load_findings()
        new = []
        seen_known = {}
        for sig, what, replay in self.violations:
            k = match_known(self.pid, sig, findings)
            if k is not None:
                seen_known.setdefault(k['id'], (k, 0))
                seen_known[k['id']] = (k, seen_known[k['id']][1] + 1)
            else:
                new.append((sig, what, replay))
        for kid, (k, n) in sorted(seen_known.items()):
            print('KNOWN-FINDING: property=%s %s [%s, %d case(s) this run]' % (self.pid, k['what'], kid, n))
        os.makedirs(REPLAYS, exist_ok=True)
        shown = 0
        for sig, what, replay in new:
            body = {'property': self.pid, 'signature': sig, 'what': what, 'replay': replay, 'seed': self.seed,
                    'tier': self.tier}
            h = hashlib.sha1(json.dumps(body, sort_keys=True, default=str).encode()).hexdigest()[:12]
            path = os.path.join(REPLAYS, '%s-%s.json' % (self.pid, h))
            if shown < 25:
                with open(path, 'w') as f:
                    json.dump(body, f, indent=1, default=str)
                print('VIOLATION property=%s replay=%s  # %s' % (self.pid, path, what))
            shown += 1
        if shown > 25:
            print('... %d further violations of %s not written out' % (shown - 25, self.pid))
        classes = {}
        for sig, _what, _replay in new:
            k = json.dumps(sig, sort_keys=True, default=str)
            classes[k] = classes.get(k, 0) + 1
        if classes:
            self.cov['unlisted_violation_classes'] = [{'signature': json.loads(k), 'count': v} for k, v in sorted(classes.items())]
        self.write_evidence(len(new), sorted(seen_known))
        return 1 if new else 0

    def write_evidence(self, nviol, known_ids):
        os.makedirs(EVIDENCE, exist_ok=True)
        cov = dict(self.cov)
        if not cov['samples']:
            cov['samples'] = ['(no sample recorded)']
        cov['known_findings_matched'] = known_ids
        if self.notes:
            cov['notes'] = self.notes
        ev = {'property_id': self.pid, 'tier': self.tier, 'seed': self.seed, 'level': self.level,
              'coverage': cov, 'assumptions': self.assumptions, 'wall_s': round(time.time() - self.t0, 2),
              'violations': nviol}
        tmp = os.path.join(EVIDENCE, '.%s.json.tmp' % self.pid)
        with open(tmp, 'w') as f:
            json.dump(ev, f, indent=1, default=str)
        os.replace(tmp, os.path.join(EVIDENCE, '%s.json' % self.pid))


def main(run, pid):
    """Entry point used by every checks/cXX.py: run(check) -> None; handles exit codes."""
    import argparse
    ap = argparse.ArgumentParser()
    ap.add_argument('--tier', default=os.environ.get('VERIF_TIER', 'quick'), choices=['quick', 'thorough'])
    ap.add_argument('--replay')
    ap.add_argument('--selftest', action='store_true')
    a = ap.parse_args(sys.argv[2:] if len(sys.argv) > 1 and sys.argv[1] == pid else sys.argv[1:])
    chk = Check(pid, a.tier)
    chk.replay = a.replay
    chk.selftest = a.selftest
    try:
        use_repo()
        run(chk)
        rc = chk.finish()
    except MachineryError as e:
        print('MACHINERY-FAILURE %s: %s' % (pid, e))
        rc = 2
    except Exception:
        print('MACHINERY-FAILURE %s: unexpected exception in the harness' % pid)
        traceback.print_exc()
        rc = 2
    print('%s tier=%s seed=%d exit=%d wall=%.1fs' % (pid, a.tier, chk.seed, rc, time.time() - chk.t0))
    sys.exit(rc)


def _pinit():
    use_repo()
    import logging
    logging.disable(logging.CRITICAL)


class Hung:
    """Result of a job that did not return within the watchdog time: the code under test was still running (an endless
    loop in the proxy is a finding, not something a check may hang on).  `where` is the innermost stack at that moment."""

    def __init__(self, item, where):
        self.item = item
        self.where = where


class _Watchdog(BaseException):
    pass


def _guarded(arg):
    import signal
    func, item, secs = arg

    def on_alarm(sig, frm):
        raise _Watchdog(''.join(traceback.format_stack(frm)[-6:]))
    signal.signal(signal.SIGALRM, on_alarm)
    signal.alarm(secs)
    try:
        return func(item)
    except _Watchdog as w:
        return Hung(item, str(w))
    finally:
        signal.alarm(0)


def pmap(func, items, workers=16, chunksize=8, watchdog=None):
    """Run func over items in worker processes (each imports proxy from the tree under test).  Order is preserved.
    With watchdog=<seconds> a job still running after that long yields a Hung object in its place."""
    from concurrent.futures import ProcessPoolExecutor
    if watchdog:
        items = [(func, x, watchdog) for x in items]
        func = _guarded
    if len(items) < 32:
        return [func(x) for x in items]
    with ProcessPoolExecutor(workers, initializer=_pinit) as ex:
        return list(ex.map(func, items, chunksize=chunksize))
