"""TLC / SANY runner.

Every invocation is wrapped in a time limit.  The result distinguishes three outcomes, which the
checks map to exit codes 0 / 1 / 2:

  ok        TLC finished, no property of the configuration violated
  violated  TLC reported an invariant / property / postcondition violation
  failed    SANY / TLC / the JVM failed (parse error, evaluation error, timeout): machinery failure
"""
import json
import os
import re
import shutil
import subprocess
import tempfile
import time

VERIF = os.path.dirname(os.path.dirname(os.path.abspath(__file__)))
SPEC = os.path.join(VERIF, 'spec')
JAR = '/opt/veriftools/tla/tla2tools.jar:/opt/veriftools/tla/CommunityModules-deps.jar'

_GEN = re.compile(r'(\d+) states generated, (\d+) distinct states found')
_INV = re.compile(r'Invariant (\S+) is violated')
_PROP = re.compile(r'(Temporal properties were violated|Action property \S+ is violated|Invariant \S+ is violated'
                   r'|The postcondition \S+ is violated|Deadlock reached|is violated)')


class TlcResult:
    def __init__(self, rc, out, wall):
        self.rc = rc
        self.out = out
        self.wall = wall
        gens = _GEN.findall(out)
        self.generated = int(gens[-1][0]) if gens else 0
        self.distinct = int(gens[-1][1]) if gens else 0
        self.timed_out = rc in (124, 137)
        self.violation = None
        m = _PROP.search(out)
        if m:
            self.violation = m.group(0)
        m = _INV.search(out)
        self.invariant = m.group(1) if m else None
        finished = 'Model checking completed' in out or 'Finished in' in out or 'The number of states generated' in out \
            or 'Finished computing initial states' in out
        # TLC exit codes: 0 ok, 10..14 violations (assumption 10, deadlock 11, safety 12, liveness 13), >= 75 errors
        if self.timed_out:
            self.status = 'failed'
        elif rc == 0 and not self.violation:
            self.status = 'ok'
        elif rc in (11, 12, 13) or (self.violation and rc < 75 and 'Error: Parsing' not in out):
            self.status = 'violated'
        else:
            self.status = 'failed'
        self.finished = finished

    def lines(self, prefix):
        return [l for l in self.out.splitlines() if l.startswith(prefix)]

    def coverage(self):
        """-coverage output: {action: (taken, distinct)} from lines '<Action line .. of module M>: a:b'."""
        cov = {}
        for m in re.finditer(r'^<(\w+) line \d+, col \d+ to line \d+, col \d+ of module (\w+)>: (\d+):(\d+)', self.out, re.M):
            cov[m.group(1)] = (int(m.group(3)), int(m.group(4)))
        return cov

    def brief(self):
        tail = '\n'.join(self.out.splitlines()[-25:])
        return 'rc=%s status=%s generated=%d distinct=%d wall=%.1fs\n%s' % (
            self.rc, self.status, self.generated, self.distinct, self.wall, tail)


def run(module, cfg=None, *, workers=None, timeout=600, env=None, extra=(), simulate=None, depth=None,
        seed=None, deadlock=False, coverage=False, cwd=None, heap='4g', dfs=False, constants=None, cfg_text=None):
    """Run TLC on spec/<module>.tla with spec/<cfg>.

    constants / cfg_text: when given, a configuration file is generated in a scratch directory
    (cfg_text is the literal body; constants is a dict appended as a CONSTANTS section to <cfg>).
    """
    cwd = cwd or SPEC
    meta = tempfile.mkdtemp(prefix='tlc-meta-')
    cfgpath = os.path.join(cwd, cfg or (module + '.cfg'))
    tmpcfg = None
    if cfg_text is not None or constants:
        body = cfg_text if cfg_text is not None else open(cfgpath).read()
        if constants:
            body += '\nCONSTANTS\n' + '\n'.join('  %s = %s' % kv for kv in constants.items()) + '\n'
        fd, tmpcfg = tempfile.mkstemp(prefix='cfg-', suffix='.cfg', dir=meta)
        os.write(fd, body.encode())
        os.close(fd)
        cfgpath = tmpcfg
    javaopts = ['-XX:+UseParallelGC', '-Xmx' + heap, '-Xss16m', '-Djava.io.tmpdir=' + meta]     # (TLC leaves an empty tlc-<n> directory there)
    if dfs:
        javaopts.append('-Dtlc2.tool.queue.IStateQueue=StateDeque')
    cmd = ['timeout', '-k', '5', str(int(timeout)), 'java'] + javaopts + ['-cp', JAR, 'tlc2.TLC',
           '-metadir', meta, '-noGenerateSpecTE', '-config', cfgpath]
    if workers is None:
        workers = 'auto'
    cmd += ['-workers', str(workers)]
    if not deadlock:
        cmd += ['-deadlock']          # -deadlock DISABLES deadlock checking
    if coverage:
        cmd += ['-coverage', '1']
    if simulate:
        cmd += ['-simulate', simulate]
    if depth:
        cmd += ['-depth', str(depth)]
    if seed is not None:
        cmd += ['-seed', str(seed)]
    cmd += list(extra)
    cmd += [module]
    e = dict(os.environ)
    e.pop('JAVA_TOOL_OPTIONS', None)
    if env:
        e.update({k: str(v) for k, v in env.items()})
    t0 = time.time()
    try:
        p = subprocess.run(cmd, cwd=cwd, env=e, stdout=subprocess.PIPE, stderr=subprocess.STDOUT, text=True,
                           errors='replace')
        out, rc = p.stdout, p.returncode
    finally:
        shutil.rmtree(meta, ignore_errors=True)
    return TlcResult(rc, out, time.time() - t0)


def sany(module, cwd=None):
    cwd = cwd or SPEC
    p = subprocess.run(['timeout', '120', 'java', '-cp', JAR, 'tla2sany.SANY', module + '.tla'], cwd=cwd,
                       stdout=subprocess.PIPE, stderr=subprocess.STDOUT, text=True)
    ok = p.returncode == 0 and 'Semantic errors' not in p.stdout and 'Fatal errors' not in p.stdout \
        and '*** Errors' not in p.stdout and 'Exception' not in p.stdout
    return ok, p.stdout


# ----------------------------------------------------------------------------------------------
# batch verdicts: trace specs print one line per rejected item
#   "REJECTED|<id>|<clause / detail>"
# ----------------------------------------------------------------------------------------------
_REJ = re.compile(r'^"?REJECTED\|(\d+)\|(.*?)"?\s*$')


def rejected(out):
    res = []
    for line in out.splitlines():
        m = _REJ.match(line.strip())
        if m:
            res.append((int(m.group(1)), m.group(2)))
    return res


def write_json(path, obj):
    with open(path, 'w') as f:
        json.dump(obj, f, separators=(',', ':'))


def run_sharded(module, cfg, items, *, shards=16, timeout=600, env=None, heap='3g', key='TRACE_FILE', **kw):
    """Validate a batch of independent items (cases or traces) with `shards` TLC processes in parallel.

    Each process gets a JSON array with its share in the file named by the environment variable `key`
    and runs single-worker (verdict lines are printed, one per rejected item).  Returns
    (results, rejected) where rejected is a list of (item id, clause text)."""
    import concurrent.futures
    shards = max(1, min(shards, len(items)))
    tmp = tempfile.mkdtemp(prefix='tlc-batch-')
    parts = [items[i::shards] for i in range(shards)]
    files = []
    for n, part in enumerate(parts):
        path = os.path.join(tmp, 'part%02d.json' % n)
        write_json(path, part)
        files.append(path)

    def one(path):
        e = dict(env or {})
        e[key] = path
        return run(module, cfg, workers=1, timeout=timeout, env=e, heap=heap, **kw)
    try:
        with concurrent.futures.ThreadPoolExecutor(max_workers=shards) as ex:
            results = list(ex.map(one, files))
    finally:
        shutil.rmtree(tmp, ignore_errors=True)
    rej = []
    for r in results:
        rej.extend(rejected(r.out))
    return results, rej


class Merged:
    """Sum of several TlcResults (for evidence)."""
    def __init__(self, results):
        self.distinct = sum(r.distinct for r in results)
        self.generated = sum(r.generated for r in results)
        self.wall = max([r.wall for r in results] or [0])
        bad = [r for r in results if r.status == 'failed']
        self.status = 'failed' if bad else ('violated' if any(r.status == 'violated' for r in results) else 'ok')
        self.bad = bad

    def brief(self):
        return self.bad[0].brief() if self.bad else 'ok'
