"""RealNet: REAL proxy processes (python -m proxy ...) on loopback, scripted origin servers and scripted clients.

Nothing here judges anything.  Per connection a transcript is recorded (bytes the client received, whether it saw
end-of-stream; bytes every upstream connection received, in accept order); the transcripts go to a trace specification.
Reads are "until the peer has been quiet for `quiet` seconds" so that no expectation about lengths is built in.
"""
import os
import socket
import subprocess
import tempfile
import threading
import time

from harness.common import REPO, VERIF

MODES = {'threaded': ['--threaded'], 'local': ['--threadless'], 'remote': ['--threadless', '--local-executor', '0']}


class ProxyProc:
    def __init__(self, mode, extra=(), acceptors=1, workers=1, env=None):
        self.dir = tempfile.mkdtemp(prefix='proxy-%s-' % mode)
        self.port_file = os.path.join(self.dir, 'port')
        args = ['/venv/bin/python', '-m', 'proxy', '--hostname', '127.0.0.1', '--port', '0', '--port-file', self.port_file,
                '--num-acceptors', str(acceptors), '--num-workers', str(workers), '--log-level', 'CRITICAL',
                '--data-dir', os.path.join(self.dir, 'data')] + MODES[mode] + list(extra)
        e = dict(os.environ, PYTHONPATH=REPO + os.pathsep + VERIF, PYTHONHASHSEED='0')
        e.update(env or {})
        self.p = subprocess.Popen(args, cwd=self.dir, env=e, stdout=subprocess.DEVNULL, stderr=subprocess.PIPE)
        self.port = None
        t0 = time.time()
        while time.time() - t0 < 20:
            if self.p.poll() is not None:
                raise RuntimeError('proxy exited: ' + self.p.stderr.read().decode()[-500:])
            try:
                txt = open(self.port_file).read().split()
                if txt:
                    self.port = int(txt[0])
                    break
            except (OSError, ValueError):
                pass
            time.sleep(0.05)
        if self.port is None:
            self.stop()
            raise RuntimeError('proxy did not write its port file')
        # wait until it accepts
        t0 = time.time()
        while time.time() - t0 < 10:
            try:
                socket.create_connection(('127.0.0.1', self.port), timeout=1).close()
                break
            except OSError:
                time.sleep(0.05)

    def stop(self):
        import shutil
        try:
            self.p.terminate()
            try:
                self.p.wait(timeout=10)
            except subprocess.TimeoutExpired:
                self.p.kill()
                self.p.wait(timeout=5)
        finally:
            shutil.rmtree(self.dir, ignore_errors=True)


class Origin:
    """Threaded TCP origin on 127.0.0.1:<assigned>.  behaviour(conn_index, received_so_far) -> bytes to send | None | 'close'.
    Default behaviour: HTTP - answer every complete request (head + Content-Length body) with a labelled response."""

    def __init__(self, label=b'A', behaviour=None, wrap=None, host='127.0.0.1'):
        self.label = label
        self.behaviour = behaviour
        self.wrap = wrap
        self.srv = socket.socket(socket.AF_INET6 if ':' in host else socket.AF_INET, socket.SOCK_STREAM)
        self.srv.setsockopt(socket.SOL_SOCKET, socket.SO_REUSEADDR, 1)
        self.srv.bind((host, 0))
        self.srv.listen(64)
        self.port = self.srv.getsockname()[1]
        self.conns = []         # [{'got': bytearray, 'eof': bool}]
        self.lock = threading.Lock()
        self.running = True
        self.t = threading.Thread(target=self._accept, daemon=True)
        self.t.start()

    def _accept(self):
        while self.running:
            try:
                c, _ = self.srv.accept()
            except OSError:
                return
            rec = {'got': bytearray(), 'eof': False, 'err': ''}
            with self.lock:
                self.conns.append(rec)
                idx = len(self.conns)
            threading.Thread(target=self._serve, args=(c, rec, idx), daemon=True).start()

    def _serve(self, c, rec, idx):
        import re
        try:
            if self.wrap is not None:
                c = self.wrap(c)
            c.settimeout(10)
            answered = 0
            while True:
                d = c.recv(65536)
                if not d:
                    rec['eof'] = True
                    break
                rec['got'] += d
                if self.behaviour is not None:
                    out = self.behaviour(idx, bytes(rec['got']))
                    if out == 'close':
                        break
                    if out:
                        c.sendall(out)
                    continue
                # default: HTTP labelled responses, one per complete request
                raw = bytes(rec['got'])
                n = 0
                while raw:
                    head, sep, rest = raw.partition(b'\r\n\r\n')
                    if not sep:
                        break
                    m = re.search(rb'(?im)^content-length:\s*(\d+)', head)
                    cl = int(m.group(1)) if m else 0
                    if len(rest) < cl:
                        break
                    n += 1
                    if n > answered:
                        answered = n
                        path = head.split(b' ')[1] if head.count(b' ') >= 2 else b'?'
                        body = self.label + b':' + path + b':' + rest[:cl]
                        c.sendall(b'HTTP/1.1 200 OK\r\nContent-Length: %d\r\nX-Origin: %s\r\n\r\n' % (len(body), self.label) + body)
                    raw = rest[cl:]
        except Exception as e:     # noqa
            rec['err'] = repr(e)[:100]
        finally:
            try:
                c.close()
            except Exception:
                pass

    def transcript(self):
        with self.lock:
            return [{'got': bytes(r['got']), 'eof': r['eof']} for r in self.conns]

    def stop(self):
        self.running = False
        try:
            self.srv.close()
        except Exception:
            pass


def _incomplete_http(buf):
    """Waiting hint only (never a verdict): does buf end inside an HTTP message whose head announces more bytes?"""
    import re
    raw = bytes(buf)
    while raw.startswith(b'HTTP/1.'):
        head, sep, rest = raw.partition(b'\r\n\r\n')
        if not sep:
            return True
        m = re.search(rb'(?im)^content-length:\s*(\d+)\s*$', head)
        if re.search(rb'(?im)^transfer-encoding:\s*chunked\s*$', head):
            end = rest.find(b'0\r\n\r\n')
            if end < 0:
                return True
            raw = rest[end + 5:]
        elif m:
            n = int(m.group(1))
            if len(rest) < n:
                return True
            raw = rest[n:]
        else:
            return False
    return False


def read_quiet(sock, quiet=0.5, limit=60.0, first=8.0, patient=20.0):
    """Wait up to `first` seconds for the first byte (or the close), then read until the peer has been quiet for `quiet`
    seconds or closed.  While what has arrived ends in the middle of an HTTP message that announces its length, the quiet
    window is `patient` seconds instead, so that a loaded machine does not cut a long transfer short.  -> (bytes, eof)"""
    buf = bytearray()
    t0 = time.time()
    sock.settimeout(first)
    while time.time() - t0 < limit:
        try:
            d = sock.recv(1 << 16)
        except socket.timeout:
            return bytes(buf), False
        except OSError:
            return bytes(buf), True
        if not d:
            return bytes(buf), True
        buf += d
        sock.settimeout(patient if _incomplete_http(buf) else quiet)
    return bytes(buf), False


def converse(port, steps, quiet=0.5):
    """steps: ('send', bytes) | ('read',) | ('close',) | ('shut',) | ('sleep', s).  -> {'cgot', 'ceof', 'events'}"""
    s = socket.create_connection(('127.0.0.1', port), timeout=5)
    got, eof, events = bytearray(), False, []
    try:
        for st in steps:
            if st[0] == 'send':
                try:
                    s.sendall(st[1])
                except OSError:
                    events.append('send-failed')
            elif st[0] == 'read':
                d, e = read_quiet(s, quiet)
                got += d
                if d:
                    events.append('data')
                if e and not eof:
                    eof = True
                    events.append('eof')
            elif st[0] == 'shut':
                try:
                    s.shutdown(socket.SHUT_WR)
                except OSError:
                    pass
            elif st[0] == 'sleep':
                time.sleep(st[1])
            elif st[0] == 'close':
                break
    finally:
        s.close()
    return {'cgot': bytes(got), 'ceof': eof, 'events': events}
