"""Turns the raw SimNet event log into the event vocabulary of spec/TraceConn.tla.

Pure bookkeeping, no oracle: payload bytes are replaced by facts about them
  * send:  ok   = the accepted bytes equal the bytes queued on that socket at the offset (bytes accepted so far)
  * queue: src  = "own", or the socket on which exactly these bytes were received; roff = their offset there
           (searched first at the next unrelayed offset, then anywhere: a duplicate or reordering is reported
            with the offset where the bytes really came from, and TLC rejects it); same = FALSE when the bytes are
           mostly, but not exactly, the next unrelayed bytes (a modification)
"""


def sockname(s):
    if s in ('c',):
        return 'c'
    if s.startswith('u'):
        return 'u'
    if s == 'C':
        return 'c'
    if s.startswith('U'):
        return 'u'
    return s


def conn_events(log, upstream='u1', mode='tunnel'):
    """log: World.log; only the client 'c'/'C' and the given upstream endpoint are kept."""
    keep = {'c': 'c', 'C': 'c', upstream: 'u', upstream.upper(): 'u'}
    recvd = {'c': bytearray(), 'u': bytearray()}
    queued = {'c': bytearray(), 'u': bytearray()}
    rel = {'c': 0, 'u': 0}
    sent = {'c': 0, 'u': 0}
    out = []
    estab = False
    for e in log:
        ev = e['ev']
        if ev == 'tick':
            out.append({'e': 'tick'})
            continue
        if ev == 'reaped':
            out.append({'e': 'reaped'})
            continue
        if ev == 'connect':
            if e['res'] == 'accept':
                out.append({'e': 'connect'})
            continue
        s = e.get('s')
        if s not in keep:
            continue
        k = keep[s]
        if ev == 'p_send':
            out.append({'e': 'psend', 's': k, 'n': e['n']})
        elif ev == 'p_read':
            out.append({'e': 'pread', 's': k, 'n': e['n']})
        elif ev == 'p_shut':
            out.append({'e': 'pshut', 's': k})
        elif ev == 'p_close':
            out.append({'e': 'pclose', 's': k})
        elif ev == 'p_reset':
            out.append({'e': 'preset', 's': k})
        elif ev == 'recv':
            if e['res'] == 'data':
                recvd[k] += e['data']
                out.append({'e': 'recv', 's': k, 'res': 'data', 'n': e['n']})
            else:
                res = e['res']
                if res == 'err' and str(e.get('err', '')).startswith('SSLWant'):
                    res = 'again'
                out.append({'e': 'recv', 's': k, 'res': res, 'n': 0})
        elif ev == 'send':
            if e['res'] == 'ok':
                ok = bytes(queued[k][sent[k]:sent[k] + e['n']]) == e['data']
                sent[k] += e['n']
                out.append({'e': 'send', 's': k, 'res': 'ok', 'n': e['n'], 'ok': ok})
            else:
                res = e['res']
                if res == 'err' and str(e.get('err', '')).startswith('SSLWant'):
                    res = 'again'           # TLS would-block: the socket is fine, the call must be retried later
                out.append({'e': 'send', 's': k, 'res': res, 'n': 0, 'ok': True})
        elif ev == 'queue':
            data = e['data']
            o = 'u' if k == 'c' else 'c'
            src, roff, same = 'own', 0, True
            relay_dir = (k == 'c') or (mode == 'tunnel')
            if relay_dir and len(data) > 0:
                if bytes(recvd[o][rel[o]:rel[o] + len(data)]) == data:
                    src, roff = o, rel[o]
                elif len(data) >= 6 and bytes(recvd[o]).find(data) >= 0:
                    src, roff = o, bytes(recvd[o]).find(data)
                elif rel[o] < len(recvd[o]) and _overlap(bytes(recvd[o][rel[o]:]), data) >= 0.5 and len(data) >= 6:
                    # mostly the bytes that should come next, but altered
                    src, roff, same = o, rel[o], False
            if src != 'own':
                rel[o] = roff + len(data)
            elif k == 'c' and mode == 'tunnel' and not estab:
                rel['c'] = len(recvd['c'])      # the CONNECT request itself is not relay payload (Conn.tla, Queue)
            estab = True
            queued[k] += data
            out.append({'e': 'queue', 's': k, 'n': len(data), 'src': src, 'roff': roff, 'same': same})
        elif ev == 'close':
            out.append({'e': 'close', 's': k})
        elif ev == 'shutdown':
            out.append({'e': 'shutdown', 's': k})
    return out


def _overlap(a, b):
    n = min(len(a), len(b))
    if n == 0:
        return 0.0
    return sum(1 for i in range(n) if a[i] == b[i]) / float(n)
