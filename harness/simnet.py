"""SimNet: a deterministic in-memory world (sockets, selector, clock, connect seam) in which the REAL
proxy classes from /repo run unmodified: LocalFdExecutor (Threadless) + HttpProtocolHandler + plugins.

Nothing here decides a property.  SimNet only (a) gives the real code syscall results that a kernel could
give (short writes, EAGAIN, EOF, reset, injected errnos), under the control of a schedule, and (b) records
one event per syscall of the proxy and per step of a peer.  The recorded events are judged by TLC.

Kernel behaviours modelled (see DESIGN.md section 3; probed against loopback TCP by tools/kernel_probe.py):
  * a stream socket pair is two bounded byte queues; send() accepts min(len, room) bytes or raises
    BlockingIOError when there is no room; recv() returns a prefix of what is queued, b'' after the peer
    shut down / closed its writing side, raises BlockingIOError otherwise;
  * after the peer has closed, send() raises BrokenPipeError; after a reset, recv() raises
    ConnectionResetError, send() raises BrokenPipeError and shutdown() raises OSError(ENOTCONN);
  * descriptors are the lowest free numbers >= 100; close() frees the number; an unreferenced socket
    object is closed by its finalizer (as CPython does), which is how descriptor reuse arises;
  * the selector mimics selectors.EpollSelector: KeyError on double register / unknown fd, ValueError on
    fd < 0, modify() of a descriptor the kernel has dropped raises FileNotFoundError and forgets the key.
"""
import errno
import selectors
import socket as _socket
import weakref


class World:
    def __init__(self):
        self.fds = weakref.WeakValueDictionary()   # open descriptor table: fd -> SimSocket (weak: the table does not keep objects alive)
        self.log = []           # recorded events (dicts)
        self.seq = 0
        self.now = 1000.0       # virtual clock (seconds)
        self.connects = []      # every outbound connection attempt, in order
        self.origins = {}       # (host, port) -> Origin factory; see connect()
        self.default_origin = None
        self.cap = 1 << 20      # default wire capacity (bytes) of new pairs
        self.ever = 0           # descriptors ever allocated
        self.trace = True
        self.names = {}

    def alloc(self, sock):
        fd = 100
        while fd in self.fds:
            fd += 1
        self.fds[fd] = sock
        self.ever += 1
        if sock.name[:1].islower():         # proxy-side endpoints (peer application endpoints are named in upper case)
            self.ev(ev='open', fd=fd, s=sock.name)
        return fd

    def ev(self, **kw):
        if not self.trace:
            return
        self.seq += 1
        kw['i'] = self.seq
        self.log.append(kw)

    def time(self):
        return self.now

    def pair(self, a, b, cap=None, cap_b=None):
        """Two connected endpoints named a (proxy side) and b (peer application side)."""
        x, y = SimSocket(self, a), SimSocket(self, b)
        x.peer = y
        y.link_weakly(x)
        x.cap = cap if cap is not None else self.cap
        y.cap = cap_b if cap_b is not None else (cap if cap is not None else self.cap)
        return x, y


class _Gone:
    """What the peer application's endpoint sees once the proxy-side socket object has been finalised."""
    closed = True
    wr_shut = True
    got_rst = False
    cap = 0
    rx = bytearray()
    name = 'gone'


_GONE = _Gone()


class SimSocket:
    """One endpoint.  `rx` holds bytes that have arrived and are readable here; its bound `cap` is the
    capacity of the wire towards this endpoint (kernel send buffer + receive buffer)."""
    family = _socket.AF_INET
    type = _socket.SOCK_STREAM

    def __init__(self, world, name):
        self.world = world
        self.name = name
        self.fd = world.alloc(self)
        self._peer = None
        self.rx = bytearray()
        self.cap = world.cap
        self.closed = False
        self.wr_shut = False
        self.got_rst = False
        self.rst_reported = False   # the pending error of a received RST has been handed to the application
        self.traced = False         # proxy-side endpoints are traced
        self.armed = {}             # op -> [exception, ...] one-shot injected faults
        self.blocking = True
        self.timeout = None
        self.sent_total = 0         # bytes accepted by send() on this endpoint
        self.recv_total = 0
        self.maxseg = None          # if set: send() accepts at most this many bytes per call
        self.connector = None       # set for sockets created unconnected (see connect())
        self.addr = None

    # The application-side endpoint must not keep the proxy-side socket OBJECT alive (a kernel does not): its link is weak,
    # so that a proxy-side socket nobody references any more is finalised as CPython finalises a real socket.
    @property
    def peer(self):
        p = self._peer
        if isinstance(p, weakref.ref):
            p = p()
            if p is None:
                return _GONE
        return p

    @peer.setter
    def peer(self, v):
        self._peer = v

    def link_weakly(self, other):
        self._peer = weakref.ref(other)

    # -- identity ---------------------------------------------------------------------------
    def fileno(self):
        return -1 if self.closed else self.fd

    def __repr__(self):
        return '<SimSocket %s fd=%s>' % (self.name, self.fileno())

    def getpeername(self):
        return self.addr or ('192.0.2.1', 4242)

    def getsockname(self):
        return ('127.0.0.1', 8899)

    def setblocking(self, flag):
        self._chk()
        self.blocking = bool(flag)

    def settimeout(self, t):
        self.timeout = t
        self.blocking = t is None or t > 0

    def gettimeout(self):
        return self.timeout

    def setsockopt(self, *a):
        pass

    def getsockopt(self, *a):
        return 0

    def _chk(self):
        if self.closed:
            raise OSError(errno.EBADF, 'Bad file descriptor')

    def _fault(self, op):
        lst = self.armed.get(op)
        if lst:
            return lst.pop(0)
        return None

    def arm(self, op, exc):
        self.armed.setdefault(op, []).append(exc)

    def _t(self, **kw):
        if self.traced:
            self.world.ev(s=self.name, fd=self.fd, **kw)

    # -- syscalls ---------------------------------------------------------------------------
    def connect(self, addr):
        """Only meaningful for sockets created unconnected through the socket-module shim (simdrive.Sim)."""
        if self.connector is None:
            raise OSError(errno.EISCONN, 'Transport endpoint is already connected')
        c, self.connector = self.connector, None
        c(self, addr, 'socket.connect')

    def send(self, data, flags=0):
        data = bytes(data)
        try:
            self._chk()
            f = self._fault('send')
            if f is not None:
                try:
                    raise f
                finally:
                    del f            # no frame -> exception -> traceback -> frame cycle: the work must die by refcount as in CPython
            if self.got_rst and not self.rst_reported:
                # the pending socket error of a received RST is reported once, by whichever call comes first (Linux: sk_err)
                self.rst_reported = True
                raise ConnectionResetError(errno.ECONNRESET, 'Connection reset by peer')
            if self.got_rst or self.wr_shut or self.peer is None or self.peer.closed:
                raise BrokenPipeError(errno.EPIPE, 'Broken pipe')
            room = self.peer.cap - len(self.peer.rx)
            if room <= 0:
                raise BlockingIOError(errno.EAGAIN, 'Resource temporarily unavailable')
            n = min(room, len(data))
            if self.maxseg:
                n = min(n, self.maxseg)
        except BlockingIOError:
            self._t(ev='send', res='again', len=len(data))
            raise
        except OSError as e:
            self._t(ev='send', res='err', err=type(e).__name__, len=len(data))
            raise
        self.peer.rx += data[:n]
        off = self.sent_total
        self.sent_total += n
        if self.traced:
            self._t(ev='send', res='ok', n=n, len=len(data), off=off, data=data[:n])
        return n

    def sendall(self, data, flags=0):
        data = bytes(data)
        while data:
            n = self.send(data)
            data = data[n:]

    def recv(self, bufsize, flags=0):
        try:
            self._chk()
            f = self._fault('recv')
            if f is not None:
                try:
                    raise f
                finally:
                    del f            # no frame -> exception -> traceback -> frame cycle: the work must die by refcount as in CPython
            if self.rx:
                d = bytes(self.rx[:bufsize])
                del self.rx[:bufsize]
            elif self.got_rst and not self.rst_reported:
                self.rst_reported = True
                raise ConnectionResetError(errno.ECONNRESET, 'Connection reset by peer')
            elif self.got_rst:
                d = b''
            elif self.peer is None or self.peer.closed or self.peer.wr_shut:
                d = b''
            else:
                raise BlockingIOError(errno.EAGAIN, 'Resource temporarily unavailable')
        except BlockingIOError:
            self._t(ev='recv', res='again')
            raise
        except OSError as e:
            self._t(ev='recv', res='err', err=type(e).__name__)
            raise
        off = self.recv_total
        self.recv_total += len(d)
        if self.traced:
            if d:
                self._t(ev='recv', res='data', n=len(d), off=off, data=d)
            else:
                self._t(ev='recv', res='eof')
        return d

    def shutdown(self, how):
        try:
            self._chk()
            f = self._fault('shutdown')
            if f is not None:
                try:
                    raise f
                finally:
                    del f            # no frame -> exception -> traceback -> frame cycle: the work must die by refcount as in CPython
            if self.got_rst:
                raise OSError(errno.ENOTCONN, 'Transport endpoint is not connected')
        except OSError as e:
            self._t(ev='shutdown', res='err', err=type(e).__name__)
            raise
        if how in (_socket.SHUT_WR, _socket.SHUT_RDWR):
            self.wr_shut = True
        self._t(ev='shutdown', res='ok', how=int(how))

    def close(self):
        if self.closed:
            return
        self.closed = True
        if self.world.fds.get(self.fd) is self:
            del self.world.fds[self.fd]
        if self.traced or self.name[:1].islower():
            self.world.ev(s=self.name, fd=self.fd, ev='close', connected=self.peer is not None)

    def detach(self):
        self.closed = True
        self.world.fds.pop(self.fd, None)
        return self.fd

    def __del__(self):
        try:
            if not self.closed:
                self.closed = True
                if self.world.fds.get(self.fd) is self:
                    del self.world.fds[self.fd]
                if self.traced or self.name[:1].islower():
                    self.world.ev(s=self.name, fd=self.fd, ev='close', gc=True, connected=self.peer is not None)
        except Exception:
            pass

    def __enter__(self):
        return self

    def __exit__(self, *a):
        self.close()

    # -- peer-side helpers (used by the driver for the application endpoints) ------------------
    def reset(self):
        """Abortive close of this endpoint: the other side sees a reset."""
        self.closed = True
        if self.world.fds.get(self.fd) is self:
            del self.world.fds[self.fd]
        if self.peer is not None:
            self.peer.got_rst = True

    def readable(self):
        return bool(self.rx) or self.got_rst or self.peer is None or self.peer.closed or self.peer.wr_shut \
            or bool(self.armed.get('recv'))

    def writable(self):
        return self.got_rst or self.wr_shut or self.peer is None or self.peer.closed \
            or len(self.peer.rx) < self.peer.cap or bool(self.armed.get('send'))


class SimSelector:
    """The register/modify/unregister/select/get_map contract of selectors.EpollSelector over World.fds."""

    def __init__(self, world):
        self.world = world
        self.map = {}               # python-level registry: fd -> SelectorKey   (selectors._fd_to_key)
        self._gen = {}              # kernel-level epoll set: fd -> the socket object registered under that number
        self.closed = False
        self.on_select = None       # hook: called at the start of every select() (environment steps)

    @staticmethod
    def _fd(fileobj):
        if isinstance(fileobj, int):
            fd = fileobj
        else:
            fd = int(fileobj.fileno())
        if fd < 0:
            raise ValueError('Invalid file descriptor: {}'.format(fd))
        return fd

    def _in_kernel_set(self, fd):
        """The kernel drops a descriptor from the epoll set when it is closed; a reused number is a new file."""
        return fd in self._gen and self.world.fds.get(fd) is not None and self.world.fds.get(fd) is self._gen[fd]()

    def register(self, fileobj, events, data=None):
        if (not events) or (events & ~(selectors.EVENT_READ | selectors.EVENT_WRITE)):
            raise ValueError('Invalid events: {!r}'.format(events))
        fd = self._fd(fileobj)
        if fd in self.map:
            self.world.ev(ev='sel', op='register', fd=fd, res='KeyError')
            raise KeyError('{!r} (FD {}) is already registered'.format(fileobj, fd))
        if fd not in self.world.fds:
            self.world.ev(ev='sel', op='register', fd=fd, res='EBADF')
            raise OSError(errno.EBADF, 'Bad file descriptor')
        key = selectors.SelectorKey(fileobj, fd, events, data)
        self.map[fd] = key
        self._gen[fd] = weakref.ref(self.world.fds[fd])
        self.world.ev(ev='sel', op='register', fd=fd, mask=events, data=data if isinstance(data, int) else None, res='ok')
        return key

    def unregister(self, fileobj):
        try:
            fd = self._fd(fileobj)
            key = self.map.pop(fd)
        except (KeyError, ValueError):
            self.world.ev(ev='sel', op='unregister', fd=fileobj if isinstance(fileobj, int) else -1, res='KeyError')
            raise KeyError('{!r} is not registered'.format(fileobj)) from None
        stale = not self._in_kernel_set(fd)
        self._gen.pop(fd, None)     # epoll_ctl(DEL) errors are swallowed by selectors.EpollSelector.unregister
        self.world.ev(ev='sel', op='unregister', fd=fd, res='ok', stale=stale)
        return key

    def modify(self, fileobj, events, data=None):
        try:
            fd = self._fd(fileobj)
            key = self.map[fd]
        except (KeyError, ValueError):
            self.world.ev(ev='sel', op='modify', fd=fileobj if isinstance(fileobj, int) else -1, res='KeyError')
            raise KeyError('{!r} is not registered'.format(fileobj)) from None
        if events != key.events and not self._in_kernel_set(fd):
            # epoll_ctl(MOD) -> ENOENT; selectors.EpollSelector.modify() unregisters the key and re-raises
            del self.map[fd]
            self._gen.pop(fd, None)
            self.world.ev(ev='sel', op='modify', fd=fd, res='FileNotFoundError')
            raise FileNotFoundError(errno.ENOENT, 'No such file or directory')
        key = selectors.SelectorKey(key.fileobj, fd, events, data)
        self.map[fd] = key
        self.world.ev(ev='sel', op='modify', fd=fd, mask=events, res='ok')
        return key

    def select(self, timeout=None):
        if self.on_select is not None:
            self.on_select()
        out = []
        for fd, key in list(self.map.items()):
            s = self.world.fds.get(fd)
            if s is None or not self._in_kernel_set(fd):
                continue            # closed descriptors silently vanish from an epoll set
            m = 0
            if key.events & selectors.EVENT_READ and s.readable():
                m |= selectors.EVENT_READ
            if key.events & selectors.EVENT_WRITE and s.writable():
                m |= selectors.EVENT_WRITE
            if m:
                out.append((key, m))
        return out

    def get_map(self):
        return self.map

    def get_key(self, fileobj):
        return self.map[self._fd(fileobj)]

    def close(self):
        self.map.clear()
        self.closed = True

    def __enter__(self):
        return self

    def __exit__(self, *a):
        self.close()
