"""Driver for SimNet: builds the REAL executor + handler stack on a simnet.World and gives the checks
a small vocabulary of environment steps (peer sends / reads / closes, ticks, clock, faults).

Driving style is step-wise: tick() runs the executor's own Threadless._run_once() once.  Environment steps
happen between ticks (reduction argument, DESIGN.md 2.3).
"""
import gc
import asyncio
import errno
import weakref
import socket
import types

from harness import simnet

_FLAGS = {}
_LOOP = None


def shared_loop():
    global _LOOP
    if _LOOP is None or _LOOP.is_closed():
        _LOOP = asyncio.new_event_loop()
    return _LOOP


def flags_for(args, **opts):
    from proxy.common.flag import FlagParser
    key = (tuple(args), tuple(sorted((k, repr(v)) for k, v in opts.items())))
    if key not in _FLAGS:
        _FLAGS[key] = FlagParser.initialize(list(args) + ['--threadless', '--log-level', 'CRITICAL'], **opts)
    return _FLAGS[key]


_EXAMPLES = {}


def example_class(module, name):
    """A work class shipped in the repository's examples/ directory (not a package): loaded from the tree under test."""
    import importlib.util
    import os
    from harness.common import REPO
    if module not in _EXAMPLES:
        spec = importlib.util.spec_from_file_location('repo_examples_' + module, os.path.join(REPO, 'examples', module + '.py'))
        m = importlib.util.module_from_spec(spec)
        spec.loader.exec_module(m)
        _EXAMPLES[module] = m
    return getattr(_EXAMPLES[module], name)


class Peer:
    """The application on the far side of a connection (client app or origin server app)."""

    def __init__(self, sim, sock, name, addr=None):
        self.sim = sim
        self.sock = sock            # peer-side SimSocket
        self.name = name            # e.g. 'C', 'U1'
        self.addr = addr
        self.got = bytearray()      # everything the application has read
        self.out = bytearray()      # bytes the application wants to write but the wire had no room for yet
        self.sent = 0               # bytes the application has written into the wire
        self.eof_seen = False
        self.reset_seen = False
        self.closed = False
        self.on_data = None         # reactive origins: callback(peer) after new bytes were read

    @property
    def proxy_side(self):
        """The proxy's endpoint of this connection (for setting wire capacities / arming faults); None once it is gone."""
        r = getattr(self, '_proxy_side', None)
        p = r() if r is not None else self.sock.peer
        return p if isinstance(p, simnet.SimSocket) else None

    # -- writing ----------------------------------------------------------------------------
    def write(self, data):
        """Application writes data: as much as the wire takes now; the rest stays pending (pump())."""
        self.out += data
        return self.pump()

    def pump(self, limit=None):
        if not self.out or self.closed or self.sock.closed or self.sock.wr_shut:
            return 0
        chunk = bytes(self.out if limit is None else self.out[:limit])
        try:
            n = self.sock.send(chunk)
        except BlockingIOError:
            return 0
        except OSError:
            self.reset_seen = True
            self.out.clear()
            return 0
        del self.out[:n]
        self.sim.world.ev(ev='p_send', s=self.name, n=n, off=self.sent)
        self.sent += n
        return n

    # -- reading ----------------------------------------------------------------------------
    def read(self, k=None):
        if self.closed or self.sock.closed:
            return 0
        try:
            d = self.sock.recv(k if k is not None else 1 << 30)
        except BlockingIOError:
            return 0
        except ConnectionResetError:
            if not self.reset_seen:
                self.reset_seen = True
                self.sim.world.ev(ev='p_rst_seen', s=self.name)
            return 0
        if d == b'':
            if not self.eof_seen:
                self.eof_seen = True
                self.sim.world.ev(ev='p_eof_seen', s=self.name, total=len(self.got))
            return 0
        off = len(self.got)
        self.got += d
        self.sim.world.ev(ev='p_read', s=self.name, n=len(d), off=off, data=d)
        if self.on_data is not None:
            self.on_data(self)
        return len(d)

    def shut_wr(self):
        if self.closed or self.sock.closed or self.sock.wr_shut:
            return False
        self.out.clear()
        self.sock.shutdown(socket.SHUT_WR)
        self.sim.world.ev(ev='p_shut', s=self.name)
        return True

    def close(self):
        if self.closed:
            return False
        self.closed = True
        self.out.clear()
        unread = len(self.sock.rx)
        self.sock.close()
        self.sim.world.ev(ev='p_close', s=self.name, unread=unread)
        return True

    def reset(self):
        if self.closed:
            return False
        self.closed = True
        self.out.clear()
        self.sock.reset()
        self.sim.world.ev(ev='p_reset', s=self.name)
        return True


class Sim:
    def __init__(self, args=(), cap=1 << 20, flag_opts=None, origins=None, default_origin='accept', trace=True):
        import proxy.core.connection.server as S
        from proxy.core.work.fd import LocalFdExecutor
        from proxy.common.backports import NonBlockingQueue
        self.world = simnet.World()
        self.world.cap = cap
        self.world.trace = trace
        self.flags = flags_for(args, **(flag_opts or {}))
        self.q = NonBlockingQueue()
        self.ex = LocalFdExecutor(iid='1', work_queue=self.q, flags=self.flags)
        self.ex._loop = shared_loop()
        self.ex.selector = simnet.SimSelector(self.world)
        self.upstreams = []         # Peer objects of accepted outbound connections, in connect order
        self.clients = []
        self.origins = dict(origins or {})      # (host, port) -> spec
        self.default_origin = default_origin
        self.origin_setup = None                # callback(peer, host, port) when an origin accepts
        self.alive = True
        self.loop_error = None
        self._S = S
        self._patch_socket_module()
        self._patch_time()

    # -- seams --------------------------------------------------------------------------------
    def _patch_time(self):
        import time as _time
        shim = types.SimpleNamespace(**{k: getattr(_time, k) for k in dir(_time) if not k.startswith('_')})
        shim.time = self.world.time
        import proxy.http.handler as H
        import proxy.http.proxy.server as PS
        import proxy.http.server.web as W
        H.time = shim
        PS.time = shim
        W.time = shim

    def _patch_socket_module(self):
        """The lowest seam: the socket module as seen by proxy.common.utils.new_socket_connection
        (socket.socket(...).connect(addr) for IP literals, socket.create_connection(addr) for names)."""
        import proxy.common.utils as U
        import proxy.core.connection.server as S
        import socket as real
        sim = self
        shim = types.SimpleNamespace(**{k: getattr(real, k) for k in dir(real) if not k.startswith('__')})

        def mk_socket(family=real.AF_INET, type=real.SOCK_STREAM, proto=0, fileno=None):
            s = simnet.SimSocket(sim.world, 'u?')
            s.family = family
            s.connector = sim._do_connect
            return s

        def create_connection(addr, timeout=None, source_address=None, **kw):
            s = simnet.SimSocket(sim.world, 'u?')
            try:
                sim._do_connect(s, addr, 'create_connection', source_address)
            except BaseException:
                s.close()               # as socket.create_connection does
                raise
            return s
        shim.socket = mk_socket
        shim.create_connection = create_connection
        U.socket = shim
        S.new_socket_connection = U.new_socket_connection

    def _do_connect(self, sock, addr, how_called, source_address=None):
        host, port = addr[0], addr[1]
        if how_called == 'create_connection' and (not host or any(ch in host for ch in '[] \t')):
            self.world.connects.append({'host': host, 'port': port, 'how': 'gaierror', 'via': how_called, 'src': source_address})
            self.world.ev(ev='connect', host=str(host), port=port, res='gaierror', k=len(self.world.connects))
            raise socket.gaierror(socket.EAI_NONAME, 'Name or service not known')
        spec = self.origins.get((host, port), self.origins.get(host, self.default_origin))
        how = spec if isinstance(spec, str) else spec.get('how', 'accept')
        n = len(self.world.connects) + 1
        self.world.connects.append({'host': host, 'port': port, 'how': how, 'via': how_called, 'src': source_address})
        self.world.ev(ev='connect', host=str(host), port=port, res=how, k=n)
        if how == 'refuse':
            raise ConnectionRefusedError(errno.ECONNREFUSED, 'Connection refused')
        if how == 'timeout':
            raise socket.timeout('timed out')
        if how == 'gaierror':
            raise socket.gaierror(socket.EAI_NONAME, 'Name or service not known')
        if how == 'unreach':
            raise OSError(errno.EHOSTUNREACH, 'No route to host')
        idx = len(self.upstreams) + 1
        cap = spec.get('cap') if isinstance(spec, dict) else None
        b = simnet.SimSocket(self.world, 'U%d' % idx)
        sock.name = 'u%d' % idx
        sock.peer = b
        b.link_weakly(sock)
        sock.cap = cap if cap is not None else self.world.cap
        b.cap = sock.cap
        sock.traced = True
        sock.addr = (host, port)
        peer = Peer(self, b, 'U%d' % idx, addr=(host, port))
        self.upstreams.append(peer)
        if self.origin_setup is not None:
            self.origin_setup(peer, host, port)

    def _connect(self, addr, timeout=None, source_address=None):
        host, port = addr[0], addr[1]
        spec = self.origins.get((host, port), self.origins.get(host, self.default_origin))
        how = spec if isinstance(spec, str) else spec.get('how', 'accept')
        n = len([c for c in self.world.connects]) + 1
        self.world.connects.append({'host': host, 'port': port, 'how': how, 'src': source_address})
        self.world.ev(ev='connect', host=str(host), port=port, res=how, k=n)
        if how == 'refuse':
            raise ConnectionRefusedError(errno.ECONNREFUSED, 'Connection refused')
        if how == 'timeout':
            raise socket.timeout('timed out')
        if how == 'gaierror':
            raise socket.gaierror(socket.EAI_NONAME, 'Name or service not known')
        if how == 'unreach':
            raise OSError(errno.EHOSTUNREACH, 'No route to host')
        idx = len(self.upstreams) + 1
        cap = spec.get('cap') if isinstance(spec, dict) else None
        a, b = self.world.pair('u%d' % idx, 'U%d' % idx, cap=cap)
        a.traced = True
        a.addr = (host, port)
        peer = Peer(self, b, 'U%d' % idx, addr=(host, port))
        self.upstreams.append(peer)
        if self.origin_setup is not None:
            self.origin_setup(peer, host, port)
        return a

    # -- clients ------------------------------------------------------------------------------
    def accept(self, cap=None, addr=('192.0.2.7', 40000)):
        idx = len(self.clients) + 1
        nm = 'c' if idx == 1 else 'c%d' % idx
        a, b = self.world.pair(nm, nm.upper(), cap=cap)
        a.traced = True
        a.addr = addr
        peer = Peer(self, b, nm.upper(), addr=addr)
        peer._proxy_side = weakref.ref(a)
        self.clients.append(peer)
        self.q.put((a, addr))
        self.world.ev(ev='accept', s=nm, fd=a.fd)
        del a
        return peer

    # -- executor -----------------------------------------------------------------------------
    def tick(self, n=1):
        """Run the executor's own _run_once() n times.  Returns False if the loop died (exception escaped)."""
        for _ in range(n):
            if not self.alive:
                return False
            self.world.ev(ev='tick')
            nworks = len(self.ex.works)
            try:
                stop = self.ex.loop.run_until_complete(self.ex._run_once())
                if stop:
                    self.alive = False
                if len(self.ex.works) < nworks:
                    # a work the executor forgot after an exception sits in a reference cycle (Task -> exception ->
                    # traceback -> _run_once frame -> Task) exactly as in the real process; there the cycle collector
                    # frees it sooner or later, here at once, so that verdicts never depend on collector timing
                    gc.collect()
            except Exception as e:      # what _run_forever would not survive either
                self.alive = False
                self.loop_error = e
                self.world.ev(ev='loop_died', err=type(e).__name__, msg=str(e)[:200])
                return False
        return True

    def reap(self):
        """The periodic inactive-work sweep of _run_forever."""
        if not self.alive:
            return False
        try:
            self.ex._cleanup_inactive()
        except Exception as e:
            self.alive = False
            self.loop_error = e
            self.world.ev(ev='loop_died', err=type(e).__name__, msg=str(e)[:200], where='reap')
            return False
        return True

    def works(self):
        return dict(self.ex.works)

    def quiesce(self, max_ticks=200, readers=(), pumpers=()):
        """Fair drain phase: tick, let the given peers read everything and pump pending output, until nothing moves."""
        idle = 0
        for _ in range(max_ticks):
            before = self.world.seq
            moved = 0
            for p in pumpers:
                moved += p.pump()
            self.tick()
            for p in readers:
                moved += p.read()
            # a tick that only logged its own marker (and nothing else) did nothing
            progressed = moved or any(e.get('ev') not in ('tick', 'sel') for e in self.world.log[-(self.world.seq - before):])
            if progressed:
                idle = 0
            else:
                idle += 1
                if idle >= 3:
                    return True
        return False

    def census(self):
        """Resource picture after the fact (C10)."""
        import gc
        gc.collect()
        return {
            'open_fds': sorted(self.world.fds),
            'open_names': sorted(s.name for s in self.world.fds.values()),
            'selmap': sorted(self.ex.selector.map),
            'works': sorted(self.ex.works),
            'registered': {k: sorted(v) for k, v in self.ex.registered_events_by_work_ids.items()},
            'unfinished': len(self.ex.unfinished),
        }


# ---------------------------------------------------------------------------------------------------
# queue hook: TcpConnection.queue is the point where output is "produced" (C07) / relayed (C01)
# ---------------------------------------------------------------------------------------------------
_CUR = {'world': None}
_HOOKED = False


def install_queue_hook(world):
    global _HOOKED
    _CUR['world'] = world
    if _HOOKED:
        return
    from proxy.core.connection.connection import TcpConnection
    orig = TcpConnection.queue

    def queue(self, mv):
        w = _CUR['world']
        if w is not None:
            try:
                nm = self.connection.name
                fd = self.connection.fd
            except Exception:
                nm, fd = '?', -1
            w.ev(ev='queue', s=nm, fd=fd, n=len(mv), data=bytes(mv))
        return orig(self, mv)
    TcpConnection.queue = queue
    _HOOKED = True


class ThreadedSim(Sim):
    """The same world, but connections are handled the way --threaded mode does: one HttpProtocolHandler per connection with
    its OWN selector, driven through its own _run_once() / is_inactive() / shutdown() exactly as HttpProtocolHandler.run() does
    (run() itself is a blocking loop; here one iteration of it is one tick, so that peers can act between iterations).
    shutdown() flushes pending output with the handler's blocking _flush(): while it waits in select() the client peer reads
    (on_select hook), as a client that keeps reading would."""

    def __init__(self, args=(), **kw):
        args = [a for a in args]
        super().__init__(args=args, **kw)
        from proxy.common.flag import FlagParser
        key = ('threaded', tuple(args), tuple(sorted((k, repr(v)) for k, v in (kw.get('flag_opts') or {}).items())))
        if key not in _FLAGS:
            _FLAGS[key] = FlagParser.initialize(list(args) + ['--threaded', '--log-level', 'CRITICAL'], **(kw.get('flag_opts') or {}))
        self.tflags = _FLAGS[key]
        self.handlers = []          # live (handler, client peer)
        self.flush_reader = None    # callable invoked while _flush() waits

    def accept(self, cap=None, addr=('192.0.2.7', 40000)):
        from proxy.http.handler import HttpProtocolHandler
        from proxy.http.connection import HttpClientConnection
        idx = len(self.clients) + 1
        nm = 'c' if idx == 1 else 'c%d' % idx
        a, b = self.world.pair(nm, nm.upper(), cap=cap)
        a.traced = True
        a.addr = addr
        peer = Peer(self, b, nm.upper(), addr=addr)
        peer._proxy_side = weakref.ref(a)
        self.clients.append(peer)
        self.world.ev(ev='accept', s=nm, fd=a.fd)
        h = HttpProtocolHandler(HttpClientConnection(a, addr), flags=self.tflags)
        sel = simnet.SimSelector(self.world)
        sel.on_select = lambda p=peer: self._during_select(p)
        h.selector = sel
        del a
        try:
            h.initialize()
        except Exception as e:     # run() would log and shut down
            self.world.ev(ev='init_failed', err=type(e).__name__)
            self._end(h)
            return peer
        self.handlers.append((h, peer))
        return peer

    def _during_select(self, peer):
        if self.flush_reader is not None:
            self.flush_reader(peer)

    def _end(self, h):
        flushing = h.work.has_buffer()
        try:
            if flushing and self.flush_reader is None:
                # a client that keeps reading: one unit per select() of the blocking flush
                self.flush_reader = lambda p: p.read(1 << 16)
                try:
                    h.shutdown()
                finally:
                    self.flush_reader = None
            else:
                h.shutdown()
        except Exception as e:     # run() has shutdown() in its finally block: the exception ends that connection's thread only
            self.world.ev(ev='shutdown_raised', err=type(e).__name__)
        try:
            h.selector.close()
        except Exception:
            pass

    def tick(self, n=1):
        for _ in range(n):
            self.world.ev(ev='tick')
            for h, peer in list(self.handlers):
                try:
                    down = shared_loop().run_until_complete(h._run_once())
                except Exception as e:     # run() logs and goes to shutdown
                    self.world.ev(ev='handler_exc', err=type(e).__name__)
                    down = True
                if down:
                    self.handlers.remove((h, peer))
                    self._end(h)
        return True

    def reap(self):
        for h, peer in list(self.handlers):
            if h.is_inactive():
                self.handlers.remove((h, peer))
                self._end(h)
        return True

    def live_handler(self, k=0):
        return self.handlers[k][0] if len(self.handlers) > k else None
