"""Parser for TLA+ values as TLC prints them, and for the behaviour files written by
`tlc -simulate file=<prefix>,num=N` (one module per behaviour: `\\* <Action ...>` + `STATE_n == /\\ v = val ...`)."""
import glob
import re


class _P:
    def __init__(self, s):
        self.s = s
        self.i = 0

    def ws(self):
        while self.i < len(self.s) and self.s[self.i] in ' \t\r\n':
            self.i += 1

    def peek(self, t):
        self.ws()
        return self.s.startswith(t, self.i)

    def eat(self, t):
        self.ws()
        if not self.s.startswith(t, self.i):
            raise ValueError('expected %r at %d: %r' % (t, self.i, self.s[self.i:self.i + 30]))
        self.i += len(t)

    def value(self):
        self.ws()
        s, i = self.s, self.i
        c = s[i]
        if c == '"':
            j = i + 1
            out = []
            while s[j] != '"':
                if s[j] == '\\':
                    j += 1
                out.append(s[j])
                j += 1
            self.i = j + 1
            return ''.join(out)
        if s.startswith('<<', i):
            self.i += 2
            return tuple(self.items('>>'))
        if c == '{':
            self.i += 1
            return frozenset(_freeze(x) for x in self.items('}'))
        if c == '[':
            self.i += 1
            rec = {}
            if self.peek(']'):
                self.eat(']')
                return rec
            while True:
                self.ws()
                m = re.compile(r'[A-Za-z_][A-Za-z0-9_]*').match(s, self.i)
                k = m.group(0)
                self.i = m.end()
                self.eat('|->')
                rec[k] = self.value()
                if self.peek(','):
                    self.eat(',')
                    continue
                self.eat(']')
                return rec
        if c == '(':
            self.i += 1
            fn = {}
            while True:
                k = self.value()
                self.eat(':>')
                fn[_freeze(k)] = self.value()
                if self.peek('@@'):
                    self.eat('@@')
                    continue
                self.eat(')')
                return fn
        m = re.compile(r'-?\d+').match(s, i)
        if m:
            self.i = m.end()
            return int(m.group(0))
        m = re.compile(r'[A-Za-z_][A-Za-z0-9_]*').match(s, i)
        if m:
            self.i = m.end()
            w = m.group(0)
            return True if w == 'TRUE' else False if w == 'FALSE' else w
        raise ValueError('cannot parse value at %d: %r' % (i, s[i:i + 40]))

    def items(self, close):
        out = []
        if self.peek(close):
            self.eat(close)
            return out
        while True:
            out.append(self.value())
            if self.peek(','):
                self.eat(',')
                continue
            self.eat(close)
            return out


def _freeze(x):
    if isinstance(x, dict):
        return tuple(sorted((k, _freeze(v)) for k, v in x.items()))
    if isinstance(x, (list, tuple)):
        return tuple(_freeze(v) for v in x)
    return x


def parse(text):
    return _P(text).value()


_HDR = re.compile(r'^\\\* <(\w+)(?:\(([^)]*)\))? line', re.M)
_VAR = re.compile(r'^/\\ (\w+) = ', re.M)


def behaviour(path):
    """-> list of (action name, params tuple, state dict)"""
    txt = open(path).read()
    out = []
    parts = re.split(r'^STATE_\d+ ==\s*$', txt, flags=re.M)
    hdrs = _HDR.findall(txt)
    for n, body in enumerate(parts[1:]):
        body = body.split('\\* <')[0].split('====')[0]
        st = {}
        ms = list(_VAR.finditer(body))
        for k, m in enumerate(ms):
            end = ms[k + 1].start() if k + 1 < len(ms) else len(body)
            st[m.group(1)] = parse(body[m.end():end])
        name, params = hdrs[n] if n < len(hdrs) else ('?', '')
        ps = tuple(parse(p) for p in params.split(',')) if params.strip() else ()
        out.append((name, ps, st))
    return out


def behaviours(prefix):
    files = sorted(glob.glob(prefix + '_*'), key=lambda p: [int(x) for x in re.findall(r'\d+', p.rsplit('/', 1)[-1])])
    for f in files:
        yield f, behaviour(f)
