"""Plugins loaded by REAL proxy processes started by harness/realnet.py (--plugins harness.realplugins.X, PYTHONPATH=/verif)."""
import os

from proxy.http.server import ReverseProxyBasePlugin


class RevToOrigin(ReverseProxyBasePlugin):
    """/a/... -> http://127.0.0.1:$VERIF_ORIGIN_A/ua ; /b/... -> http://127.0.0.1:$VERIF_ORIGIN_B/ub"""

    def routes(self):
        return [(r'/a/', [b'http://127.0.0.1:%d/ua' % int(os.environ.get('VERIF_ORIGIN_A', '1'))]),
                (r'/b/', [b'http://127.0.0.1:%d/ub' % int(os.environ.get('VERIF_ORIGIN_B', '1'))])]
