"""Plugins loaded by REAL proxy processes started by harness/realnet.py (--plugins harness.realplugins.X, PYTHONPATH=/verif)."""
import os

from proxy.http.server import ReverseProxyBasePlugin


class RevToOrigin(ReverseProxyBasePlugin):
    """/a/... -> http://127.0.0.1:$VERIF_ORIGIN_A/ua ; /b/... -> http://127.0.0.1:$VERIF_ORIGIN_B/ub"""

    def routes(self):
        return [(r'/a/', [b'http://127.0.0.1:%d/ua' % int(os.environ.get('VERIF_ORIGIN_A', '1'))]),
                (r'/b/', [b'http://127.0.0.1:%d/ub' % int(os.environ.get('VERIF_ORIGIN_B', '1'))])]


from proxy.http.proxy import HttpProxyBasePlugin      # noqa: E402


class OptOutByPort(HttpProxyBasePlugin):
    """Opts out of TLS interception for CONNECT targets whose port is listed in $VERIF_OPTOUT_PORTS (comma separated)."""

    def do_intercept(self, request):
        ports = {int(x) for x in os.environ.get('VERIF_OPTOUT_PORTS', '').split(',') if x}
        if request.port in ports:
            return False
        return super().do_intercept(request)
