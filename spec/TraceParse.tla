----------------------------- MODULE TraceParse -----------------------------
(* C03: the ideal incremental parser is "accumulate the pieces and Parse what has arrived" (Http.tla).  For a   *)
(* self-delimiting message m of n bytes followed by trailing bytes it is complete exactly from the piece that    *)
(* contains byte m.end on, and its view (start-line fields, headers, decoded body, remainder) is a function of   *)
(* the bytes alone.  Every recorded execution of the real HttpParser / ChunkParser on one segmentation must      *)
(* agree with it.                                                                                               *)
(* Cases == sequence of [id, kind ("req"|"res"|"chunk"), bytes, views, segs]                                    *)
(*   views: the distinct final states the implementation reached (interned by the harness, no judgement there):  *)
(*          [complete, exc, method, target fields host/port/path, version, code, reason, hdrs, body, rest]        *)
(*   segs : one per segmentation executed: <<k, v, e1, .., ep>>  k = index of the first piece after which the     *)
(*          parser reported completion (0 = never), v = index into views, e_i = cumulative end of piece i.       *)
EXTENDS Target, Json, IOUtils, TLC

Cases == JsonDeserialize(IOEnv.TRACE_FILE)
VARIABLES tid, phase, vw, verdict
vars == <<tid, phase, vw, verdict>>

C == Cases[tid]
Exp == IF C.kind = "chunk"
       THEN LET d == Dechunk(C.bytes, 1)
            IN [Incomplete EXCEPT !.complete = d.ok /\ ~d.bad, !.bad = d.bad, !.body = d.body, !.end = d.next - 1]
       ELSE ParseMsg(C.bytes)

Opt(b, x) == b = x \/ (b = <<>> /\ x = <<>>)
ReqLineWhy(v, e) ==
    IF Len(e.parts) # 3 THEN "machinery: corpus request line does not have three parts"
    ELSE LET connect == e.parts[1] = LitConnect
             t == ParseTarget(e.parts[2], connect)
         IN IF ~t.ok THEN "machinery: corpus request-target is not valid"
            ELSE IF v.method # e.parts[1] \/ v.version # e.parts[3] THEN "C03 start-line fields differ from the reference (method / version)"
            ELSE IF t.form # "origin" /\ ~(v.host = t.host \/ v.host = <<91>> \o t.host \o <<93>>)
                 THEN "C03 start-line fields differ from the reference (host of the target)"
            ELSE IF t.form # "origin" /\ v.port # t.port THEN "C03 start-line fields differ from the reference (port of the target)"
            ELSE IF t.form # "authority" /\ ~(v.path = t.path \/ (v.path = <<>> /\ t.path = <<47>>))
                 THEN "C03 start-line fields differ from the reference (path of the target)"
            ELSE "ok"
ResLineWhy(v, e) ==
    IF Len(e.parts) < 2 THEN "machinery: corpus status line has fewer than two parts"
    ELSE IF v.version # e.parts[1] \/ v.code # e.parts[2] THEN "C03 start-line fields differ from the reference (version / status code)"
    ELSE IF v.reason # (IF Len(e.parts) = 3 THEN e.parts[3] ELSE <<>>) THEN "C03 start-line fields differ from the reference (reason phrase)"
    ELSE "ok"
ViewWhy(v, e) ==
    IF v.exc # "" THEN "C03 parser raised " \o v.exc \o " on a segmentation of a valid message"
    ELSE IF ~v.complete THEN "C03 parser not complete although the whole message was supplied"
    ELSE LET lw == IF C.kind = "req" THEN ReqLineWhy(v, e) ELSE IF C.kind = "res" THEN ResLineWhy(v, e) ELSE "ok" IN
         IF lw # "ok" THEN lw
         ELSE IF C.kind # "chunk" /\ {<<Lower(v.hdrs[i][1]), v.hdrs[i][2]>> : i \in 1..Len(v.hdrs)} # HdrSet(e.hdrs)
              THEN "C03 headers differ from the reference"
         ELSE IF v.body # e.body THEN "C03 decoded body differs from the reference"
         ELSE IF v.rest # Rest(C.bytes, e) THEN "C03 bytes after the message are not preserved untouched as remainder"
         ELSE "ok"

\* C03 proper: the view after any segmentation equals the view after ONE piece (views[1] is recorded from the
\* one-piece feed), and the one-piece view is complete with exactly the bytes after the message as remainder.
\* (Whether the one-piece field values are RIGHT is C15 / C14: ViewWhy above is used by TraceCodec.)
DiffField(v, w) ==
    IF v.exc # w.exc THEN "raised " \o v.exc
    ELSE IF v.complete # w.complete THEN "completion status"
    ELSE IF <<v.method, v.host, v.port, v.path, v.version, v.code, v.reason>> # <<w.method, w.host, w.port, w.path, w.version, w.code, w.reason>>
         THEN "start-line fields"
    ELSE IF v.hdrs # w.hdrs THEN "headers"
    ELSE IF v.body # w.body THEN "decoded body"
    ELSE IF v.rest # w.rest THEN "unconsumed remainder"
    ELSE "other"
SegViewWhy(i, e) ==
    LET v == C.views[i] one == C.views[1] IN
    IF i = 1
    THEN IF v.exc # "" THEN "C03 parser raised " \o v.exc \o " on a valid message fed in one piece"
         ELSE IF ~v.complete THEN "C03 parser not complete although the whole message was supplied in one piece"
         ELSE IF v.rest # Rest(C.bytes, e) THEN "C03 bytes after the message are not preserved untouched as remainder (one piece)"
         ELSE "ok"
    ELSE IF v = one THEN "ok"
    ELSE "C03 state after a segmented feed differs from the state after one piece: " \o DiffField(v, one)

\* index of the piece that contains the last byte of the message
KExp(s, e) == MinOf({i \in 3..Len(s) : s[i] >= e.end}) - 2
SegWhy(s, e, vwv) ==
    LET k == s[1] kx == KExp(s, e) IN
    IF k # 0 /\ k < kx THEN "C03 message reported complete before its last byte was supplied"
    ELSE IF vwv[s[2]] # "ok" THEN vwv[s[2]]
    ELSE IF vwv[1] # "ok" THEN "ok"       \* already reported through the one-piece view
    ELSE IF k = 0 \/ k > kx THEN "C03 message not reported complete when its last byte was supplied"
    ELSE "ok"

TInit == tid \in 1..Len(Cases) /\ phase = 0 /\ vw = <<>> /\ verdict = "ok"
TNext ==
    \/ /\ phase = 0
       /\ LET e == Exp IN
          IF ~e.complete \/ e.bad
          THEN vw' = <<>> /\ verdict' = "0|machinery: corpus message is not a complete valid message for the reference parser" /\ phase' = 2
          ELSE vw' = [i \in 1..Len(C.views) |-> SegViewWhy(i, e)] /\ verdict' = "ok" /\ phase' = 1
       /\ UNCHANGED tid
    \/ /\ phase = 1
       /\ LET e == Exp
              bad == {i \in 1..Len(C.segs) : SegWhy(C.segs[i], e, vw) # "ok"}
          IN verdict' = IF bad = {} THEN "ok"
                        ELSE LET i == MinOf(bad) IN ToString(i) \o "|" \o SegWhy(C.segs[i], e, vw)
                                 \o " (" \o ToString(Cardinality(bad)) \o " of " \o ToString(Len(C.segs)) \o " segmentations)"
       /\ phase' = 2 /\ UNCHANGED <<tid, vw>>
TSpec == TInit /\ [][TNext]_vars
Report == verdict = "ok" \/ PrintT("REJECTED|" \o ToString(C.id) \o "|" \o verdict)
=============================================================================
