----------------------------- MODULE TraceParse -----------------------------
(* C03: the ideal incremental parser is "accumulate the pieces and Parse what has arrived" (Http.tla).  For a   *)
(* self-delimiting message m of n bytes followed by trailing bytes it is complete exactly from the piece that    *)
(* contains byte m.end on, and its view (start-line fields, headers, decoded body, remainder) is a function of   *)
(* the bytes alone.  Every recorded execution of the real HttpParser / ChunkParser on one segmentation must      *)
(* agree with it.                                                                                               *)
(* Cases == sequence of [id, kind ("req"|"res"|"chunk"), bytes, views, segs]                                    *)
(*   views: the distinct final states the implementation reached (interned by the harness, no judgement there):  *)
(*          [complete, exc, method, target fields host/port/path, version, code, reason, hdrs, body, rest]        *)
(*   segs : one per segmentation executed: <<k, v, e1, .., ep>>  k = index of the first piece after which the     *)
(*          parser reported completion (0 = never), v = index into views, e_i = cumulative end of piece i.       *)
EXTENDS ParseView, Json, IOUtils, TLC

Cases == JsonDeserialize(IOEnv.TRACE_FILE)
VARIABLES tid, phase, vw, verdict
vars == <<tid, phase, vw, verdict>>

C == Cases[tid]
Exp == IF C.kind = "chunk"
       THEN LET d == Dechunk(C.bytes, 1)
            IN [Incomplete EXCEPT !.complete = d.ok /\ ~d.bad, !.bad = d.bad, !.body = d.body, !.end = d.next - 1]
       ELSE IF C.skip = 0 THEN ParseMsg(C.bytes)
       \* a PROXY protocol v1 line (C.skip bytes, --enable-proxy-protocol) precedes the message: the message is what follows it
       ELSE LET m == ParseMsg(Sub(C.bytes, C.skip + 1, Len(C.bytes))) IN [m EXCEPT !.end = @ + C.skip]

\* C03 proper: the view after any segmentation equals the view after ONE piece (views[1] is recorded from the
\* one-piece feed), and the one-piece view is complete with exactly the bytes after the message as remainder.
\* (Whether the one-piece field values are RIGHT is C15 / C14: ViewWhy above is used by TraceCodec.)
DiffField(v, w) ==
    IF v.exc # w.exc THEN "raised " \o v.exc
    ELSE IF v.complete # w.complete THEN "completion status"
    ELSE IF <<v.method, v.host, v.port, v.path, v.version, v.code, v.reason>> # <<w.method, w.host, w.port, w.path, w.version, w.code, w.reason>>
         THEN "start-line fields"
    ELSE IF v.hdrs # w.hdrs THEN "headers"
    ELSE IF v.body # w.body THEN "decoded body"
    ELSE IF v.rest # w.rest THEN "unconsumed remainder"
    ELSE "other"
SegViewWhy(i, e) ==
    LET v == C.views[i] one == C.views[1] IN
    IF i = 1
    THEN IF v.exc # "" THEN "C03 parser raised " \o v.exc \o " on a valid message fed in one piece"
         ELSE IF ~v.complete THEN "C03 parser not complete although the whole message was supplied in one piece"
         ELSE IF v.rest # Rest(C.bytes, e) THEN "C03 bytes after the message are not preserved untouched as remainder (one piece)"
         ELSE "ok"
    ELSE IF v = one THEN "ok"
    ELSE "C03 state after a segmented feed differs from the state after one piece: " \o DiffField(v, one)

\* index of the piece that contains the last byte of the message
KExp(s, e) == MinOf({i \in 3..Len(s) : s[i] >= e.end}) - 2
SegWhy(s, e, vwv) ==
    LET k == s[1] kx == KExp(s, e) IN
    IF k # 0 /\ k < kx THEN "C03 message reported complete before its last byte was supplied"
    ELSE IF vwv[s[2]] # "ok" THEN vwv[s[2]]
    ELSE IF vwv[1] # "ok" THEN "ok"       \* already reported through the one-piece view
    ELSE IF k = 0 \/ k > kx THEN "C03 message not reported complete when its last byte was supplied"
    ELSE "ok"

TInit == tid \in 1..Len(Cases) /\ phase = 0 /\ vw = <<>> /\ verdict = "ok"
TNext ==
    \/ /\ phase = 0
       /\ LET e == Exp IN
          IF ~e.complete \/ e.bad
          THEN vw' = <<>> /\ verdict' = "0|machinery: corpus message is not a complete valid message for the reference parser" /\ phase' = 2
          ELSE vw' = [i \in 1..Len(C.views) |-> SegViewWhy(i, e)] /\ verdict' = "ok" /\ phase' = 1
       /\ UNCHANGED tid
    \/ /\ phase = 1
       /\ LET e == Exp
              bad == {i \in 1..Len(C.segs) : SegWhy(C.segs[i], e, vw) # "ok"}
          IN verdict' = IF bad = {} THEN "ok"
                        ELSE LET i == MinOf(bad) IN ToString(i) \o "|" \o SegWhy(C.segs[i], e, vw)
                                 \o " (" \o ToString(Cardinality(bad)) \o " of " \o ToString(Len(C.segs)) \o " segmentations)"
       /\ phase' = 2 /\ UNCHANGED <<tid, vw>>
TSpec == TInit /\ [][TNext]_vars
Report == verdict = "ok" \/ PrintT("REJECTED|" \o ToString(C.id) \o "|" \o verdict)
=============================================================================
