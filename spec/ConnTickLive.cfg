SPECIFICATION FairSpec
PROPERTY Delivered
PROPERTY FlushedAndClosed
PROPERTY AllRead
CHECK_DEADLOCK FALSE
