---------------------------- MODULE TraceReverse ----------------------------
(* C12: the reverse proxy routes matching requests to a configured upstream, as documented.                              *)
(* A case is one client connection (1..4 requests, lock step) through the REAL handler + ReverseProxy with a synthesised   *)
(* ReverseProxyBasePlugin.  routes: Seq of [kind ("static" | "dynurl" | "dynbytes"), prefix, urls] - a route matches a       *)
(* path iff the path starts with its prefix (the regular expressions used are literal prefixes).                           *)
(* Per request k the harness recorded: conns[k] (outbound connection attempts made while it was handled, as they reach the  *)
(* socket layer), ugot[k] (bytes the upstream of that connection received), cgot[k] (bytes the client received).            *)
EXTENDS Target, Json, IOUtils, TLC
Cases == JsonDeserialize(IOEnv.TRACE_FILE)
VARIABLES tid, verdict
vars == <<tid, verdict>>
C == Cases[tid]
L404 == <<52, 48, 52>>
Matches(r, path) == StartsWith(path, r.prefix)
NoHost(hs) == {p \in HdrSet(hs) : p[1] # LitHost /\ p[1] # LitContentLength}
\* request k was forwarded correctly to url u
FwdWhy(k, u, req) ==
    LET pu == ParseUrl(u) m == ParseMsg(C.ugot[k]) pos == " (request " \o ToString(k) \o ")" IN
    IF ~pu.ok THEN "machinery: route URL not valid for the reference"
    ELSE IF Len(C.conns[k]) > 1 THEN "C12 a matching request caused " \o ToString(Len(C.conns[k])) \o " outbound connections" \o pos
    ELSE IF Len(C.conns[k]) = 0 /\ C.reused[k].host = <<>> THEN "C12 a matching request was forwarded to no upstream (no outbound connection, none reused)" \o pos
    \* the request went over a new connection, or over the connection this client connection already had to that same upstream
    ELSE IF (IF Len(C.conns[k]) = 1 THEN C.conns[k][1].host ELSE C.reused[k].host) # pu.host THEN "C12 connected to a host that is not the route URL's host" \o pos
    ELSE IF (IF Len(C.conns[k]) = 1 THEN C.conns[k][1].port ELSE C.reused[k].port) # pu.port THEN "C12 connected to a port that is not the route URL's port (default by scheme)" \o pos
    ELSE IF StartsWith(Lower(u), LitHttps \o LitSchemeSep) THEN "ok"     \* https upstream: only the connection attempt is observable on SimNet
    ELSE IF ~m.complete \/ Len(m.parts) # 3 THEN "C12 the upstream did not receive a complete well-formed request" \o pos
    ELSE IF m.parts[1] # req.parts[1] THEN "C12 method not preserved" \o pos
    ELSE IF m.parts[2] # pu.path THEN "C12 request path is not the route URL's path" \o pos
    ELSE IF m.parts[3] # req.parts[3] THEN "C12 version not preserved" \o pos
    ELSE IF NoHost(m.hdrs) # NoHost(req.hdrs) THEN "C12 header fields not preserved" \o pos
    ELSE IF m.body # req.body THEN "C12 body not preserved" \o pos
    ELSE IF C.rewrite /\ HdrVal(m.hdrs, LitHost) # UrlAuthority(u) THEN "C12 Host header not rewritten to the upstream authority" \o pos
    ELSE IF ~C.rewrite /\ HdrVal(m.hdrs, LitHost) # HdrVal(req.hdrs, LitHost) THEN "C12 Host header rewritten although the option is off" \o pos
    ELSE IF C.cgot[k] # C.resp THEN "C12 the upstream's response was not relayed unmodified" \o pos
    ELSE "ok"
ReqWhy(k) ==
    LET req == ParseMsg(C.reqs[k])
        path == ParseTarget(req.parts[2], FALSE).path
        M == {i \in 1..Len(C.routes) : Matches(C.routes[i], path)}
        pos == " (request " \o ToString(k) \o ")"
    IN
    IF M = {} THEN
         (IF Len(C.conns[k]) # 0 THEN "C12 a request matching no route caused an outbound connection" \o pos
          ELSE IF LET r == ParseMsg(C.cgot[k]) IN Len(r.parts) < 2 \/ r.parts[2] # L404 THEN "C12 a request matching no route was not answered with 404" \o pos
          ELSE "ok")
    ELSE \* any matching route may have decided; any of its URLs may have been chosen
         LET ok == \E i \in M :
                     \/ C.routes[i].kind = "dynbytes" /\ Len(C.conns[k]) = 0 /\ C.cgot[k] = C.literal
                     \/ C.routes[i].kind # "dynbytes" /\ \E j \in 1..Len(C.routes[i].urls) : FwdWhy(k, C.routes[i].urls[j], req) = "ok"
         IN IF ok THEN "ok"
            ELSE LET i == MinOf(M) IN
                 IF C.routes[i].kind = "dynbytes"
                 THEN (IF Len(C.conns[k]) # 0 THEN "C12 a request answered by the plugin itself caused an outbound connection" \o pos
                       ELSE "C12 the literal response of a dynamic route was not sent as is" \o pos)
                 ELSE \* report against the URL the observed connection points to, if any (random.choice picked it)
                      LET us == C.routes[i].urls
                          hit == {j \in 1..Len(us) : LET pu == ParseUrl(us[j])
                                                         h == IF Len(C.conns[k]) = 1 THEN C.conns[k][1].host ELSE C.reused[k].host
                                                         p == IF Len(C.conns[k]) = 1 THEN C.conns[k][1].port ELSE C.reused[k].port
                                                     IN pu.ok /\ pu.host = h /\ pu.port = p}
                      IN FwdWhy(k, us[IF hit = {} THEN 1 ELSE MinOf(hit)], req)
Why == LET bad == {k \in 1..Len(C.reqs) : ReqWhy(k) # "ok"} IN IF bad = {} THEN "ok" ELSE ReqWhy(MinOf(bad))
TInit == tid \in 1..Len(Cases) /\ verdict = ""
TNext == verdict = "" /\ verdict' = Why /\ UNCHANGED tid
TSpec == TInit /\ [][TNext]_vars
Report == verdict \in {"", "ok"} \/ PrintT("REJECTED|" \o ToString(C.id) \o "|" \o verdict)
=============================================================================
