----------------------------- MODULE TraceChain -----------------------------
(* C09, code -> spec: the hook-call log and the observable effects of a real execution (REAL HttpProxyPlugin with   *)
(* plugin classes synthesised from a PluginChain program) are stepped through the actions of PluginChain.tla:      *)
(* every step of the model that is a hook call must be the next logged call (same plugin, same hook, same request  *)
(* modifications seen on entry); at the end the connect / forwarded / client-output observables must agree.        *)
(* Case: [id, prog, auth, ending, calls, nconnect, fwd, out, ceof]                                                *)
EXTENDS PluginChain, Json, IOUtils
Cases == JsonDeserialize(IOEnv.TRACE_FILE)
VARIABLES tid, verdict
tvars == <<vars, tid, verdict>>
C == Cases[tid]

TInit == /\ tid \in 1..Len(Cases) /\ verdict = "ok"
         /\ prog = [p \in 1..NP |-> Cases[tid].prog[p]] /\ auth = Cases[tid].auth /\ ending = Cases[tid].ending
         /\ pc = "auth" /\ i = 1 /\ r = 1 /\ tags = <<>> /\ rtags = <<>> /\ nhcr = [p \in 1..NP |-> 0] /\ calls = <<>>
         /\ conn = "none" /\ doconn = TRUE /\ fwd = <<>> /\ out = <<>> /\ closed = FALSE /\ dest = 0

Show(c) == "plugin " \o ToString(c.p) \o " " \o c.h \o " seeing " \o ToString(c.seen)
\* after a model step: the newest model call must be the logged call at the same position
CallWhy ==
    IF Len(calls') = Len(calls) THEN "ok"
    ELSE LET k == Len(calls') IN
         IF k > Len(C.calls) THEN "C09 hook call missing: the model expects " \o Show(calls'[k]) \o " as call " \o ToString(k)
                                  \o " but the execution made only " \o ToString(Len(C.calls)) \o " calls"
         ELSE IF C.calls[k] # calls'[k] THEN "C09 call " \o ToString(k) \o " of the execution is " \o Show(C.calls[k])
                                              \o " where the chaining semantics require " \o Show(calls'[k])
         ELSE "ok"
EndWhy ==
    IF Len(C.calls) > Len(calls') THEN "C09 the execution made a hook call beyond what the chaining semantics allow: " \o Show(C.calls[Len(calls') + 1])
    ELSE IF (conn' = "none") # (C.nconnect = 0) THEN
         IF C.nconnect = 0 THEN "C09 no upstream connection although no plugin suppressed it" ELSE "C09 upstream contacted although a plugin suppressed or rejected the request (or authentication failed)"
    ELSE IF C.nconnect > 0 /\ C.dest # dest' THEN "C09 the upstream connection went to " \o (IF C.dest = 0 THEN "the address the request names" ELSE IF C.dest < 0 THEN "an unexpected address" ELSE "the address of plugin " \o ToString(C.dest))
                               \o " where the resolve_dns chain (first plugin naming an address wins) gives " \o (IF dest' = 0 THEN "the address the request names" ELSE "the address of plugin " \o ToString(dest'))
    ELSE IF C.fwd # fwd' THEN "C09 the requests forwarded to the origin (and the modifications they carry) differ from the chaining semantics: got "
                               \o ToString(C.fwd) \o " expected " \o ToString(fwd')
    ELSE IF C.out # out' THEN "C09 what the client was sent differs from the chaining semantics: got " \o ToString(C.out) \o " expected " \o ToString(out')
    ELSE IF closed' /\ ~C.ceof THEN "C09 connection not closed after the rejection"
    ELSE "ok"

TNext == /\ verdict = "ok" /\ pc # "done"
         /\ Next
         /\ verdict' = IF CallWhy # "ok" THEN CallWhy ELSE IF pc' = "done" THEN EndWhy ELSE "ok"
         /\ UNCHANGED tid
TSpec == TInit /\ [][TNext]_tvars
Report == verdict = "ok" \/ PrintT("REJECTED|" \o ToString(C.id) \o "|" \o verdict)
\* the design invariants are evaluated on every state of every validated trace as well
=============================================================================
