SPECIFICATION Spec
CONSTANTS
 FD = {100, 101, 102}
INVARIANT NoResidue
PROPERTY NeverTwice
CHECK_DEADLOCK FALSE
