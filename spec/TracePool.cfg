SPECIFICATION TSpec
CONSTANTS
 Addr = {"a", "b"}
 MAXC = 3
 UNAMBIG = FALSE
CONSTRAINT Report
INVARIANT KnownOpen
INVARIANT ForgottenClosed
CHECK_DEADLOCK FALSE
