----------------------------- MODULE ConnTick -----------------------------
(* Tick-level DESIGN model of one established exchange, shaped like the code:                      *)
(*   HttpProtocolHandler.handle_events  (proxy/http/handler.py:135-162)                            *)
(*     = client flush ; upstream flush ; client read ; upstream read ; teardown decision          *)
(*   BaseTcpServerHandler.get_events / handle_writables / handle_readables (core/base/tcp_server.py)*)
(*   HttpProxyPlugin.get_descriptors / write_to_descriptors / read_from_descriptors               *)
(*   TcpConnection.queue / flush (one buffer element, at most MAXSEND, what the wire takes)        *)
(* One Tick = one Threadless._run_once for this work; it is atomic because handle_events never     *)
(* yields.  Peers act between ticks.  Data are unit numbers 1..N per direction, so integrity is    *)
(* a statement about sequences.                                                                    *)
(*                                                                                                 *)
(* SCEN = "tunnel": both directions relay.  "http": only upstream -> client relays (the client     *)
(* does not send after its request).  "reject": no upstream; the proxy has queued OWN units of its *)
(* own output (an error page, a static file) and must flush them before closing (mustFlush).       *)
(*                                                                                                 *)
(* FIX = FALSE models the code AS BUILT.  Two design defects are then reachable and excused by     *)
(* name in the invariants (they are the known findings F12 and F20 of DESIGN.md section 5):        *)
(*   F12  a write error towards the upstream tears the connection down at once although output for *)
(*        the client is still queued / in flight                                                   *)
(*   F20  the client ending (end-of-stream, or a failed write to it) tears down as soon as the     *)
(*        CLIENT queue is empty, dropping what is still queued for the upstream                    *)
(* FIX = TRUE is the intended design (write error == upstream EOF; client EOF waits for the        *)
(* upstream queue while the upstream is open): all invariants hold without excuses.               *)
EXTENDS Naturals, Sequences, SequencesExt, FiniteSets, TLC
CONSTANTS N,        \* units each peer application wants to send
          CAP,      \* wire capacity (units), each direction
          MAXSEND,  \* max units per flush()      (--max-sendbuf-size)
          RECV,     \* max units per recv()       (--client-recvbuf-size / --server-recvbuf-size)
          OWN,      \* units of proxy-made output queued in scenario "reject"
          SCEN,     \* "tunnel" | "http" | "reject"
          FIX,
          LATE      \* generation only: peers do not shut down / close before this many steps (see GenSpec)

VARIABLES cIn, cOut, uIn, uOut,     \* wires: client->proxy, proxy->client, upstream->proxy, proxy->upstream
          cSent, uSent,             \* units written so far by the peer applications
          cGot, uGot,               \* units read by the peer applications (history)
          cPeer, uPeer,             \* "open" | "wrshut" | "closed"   (peer application side)
          cbuf, ubuf,               \* the proxy's queues: Seq of chunks, a chunk is a Seq of units
          mustFlush, readsTeared, upBroken, upClosed, dead,
          cause                     \* why the proxy tore down: "" | "flushed" | "cerr" | "uerr" | "ceof" | "ueof"
vars == <<cIn, cOut, uIn, uOut, cSent, uSent, cGot, uGot, cPeer, uPeer, cbuf, ubuf, mustFlush, readsTeared, upBroken, upClosed, dead, cause>>

Flat(b) == FlattenSeq(b)
Min2(a, b) == IF a < b THEN a ELSE b
HasUp == SCEN # "reject"
OwnUnit(i) == 100 + i               \* the proxy's own output units are 101, 102, ...

Init == /\ cIn = <<>> /\ cOut = <<>> /\ uIn = <<>> /\ uOut = <<>> /\ cSent = 0 /\ uSent = 0
        /\ cGot = <<>> /\ uGot = <<>> /\ cPeer = "open" /\ uPeer = "open"
        /\ ubuf = <<>> /\ readsTeared = FALSE /\ upBroken = FALSE /\ upClosed = FALSE /\ dead = FALSE /\ cause = ""
        /\ IF SCEN = "reject"
              THEN /\ mustFlush = TRUE
                   /\ cbuf \in {<<[i \in 1..OWN |-> OwnUnit(i)]>>,        \* queued as one piece
                               [j \in 1..OWN |-> <<OwnUnit(j)>>]}      \* queued as OWN pieces
              ELSE mustFlush = FALSE /\ cbuf = <<>>

(* ---------------- environment: peer applications ---------------- *)
CSend == SCEN = "tunnel" /\ cPeer = "open" /\ cSent < N /\ Len(cIn) < CAP /\ ~dead
         /\ cSent' = cSent + 1 /\ cIn' = Append(cIn, cSent + 1)
         /\ UNCHANGED <<cOut, uIn, uOut, uSent, cGot, uGot, cPeer, uPeer, cbuf, ubuf, mustFlush, readsTeared, upBroken, upClosed, dead, cause>>
USend == HasUp /\ uPeer = "open" /\ uSent < N /\ Len(uIn) < CAP /\ ~dead
         /\ uSent' = uSent + 1 /\ uIn' = Append(uIn, uSent + 1)
         /\ UNCHANGED <<cIn, cOut, uOut, cSent, cGot, uGot, cPeer, uPeer, cbuf, ubuf, mustFlush, readsTeared, upBroken, upClosed, dead, cause>>
CRead == cPeer # "closed" /\ cOut # <<>> /\ cGot' = Append(cGot, Head(cOut)) /\ cOut' = Tail(cOut)
         /\ UNCHANGED <<cIn, uIn, uOut, cSent, uSent, uGot, cPeer, uPeer, cbuf, ubuf, mustFlush, readsTeared, upBroken, upClosed, dead, cause>>
URead == HasUp /\ uPeer # "closed" /\ uOut # <<>> /\ uGot' = Append(uGot, Head(uOut)) /\ uOut' = Tail(uOut)
         /\ UNCHANGED <<cIn, cOut, uIn, cSent, uSent, cGot, cPeer, uPeer, cbuf, ubuf, mustFlush, readsTeared, upBroken, upClosed, dead, cause>>
CShut == cPeer = "open" /\ ~dead /\ cPeer' = "wrshut"
         /\ UNCHANGED <<cIn, cOut, uIn, uOut, cSent, uSent, cGot, uGot, uPeer, cbuf, ubuf, mustFlush, readsTeared, upBroken, upClosed, dead, cause>>
UShut == HasUp /\ uPeer = "open" /\ ~dead /\ uPeer' = "wrshut"
         /\ UNCHANGED <<cIn, cOut, uIn, uOut, cSent, uSent, cGot, uGot, cPeer, cbuf, ubuf, mustFlush, readsTeared, upBroken, upClosed, dead, cause>>
CClose == cPeer # "closed" /\ ~dead /\ cPeer' = "closed"      \* full close: what was in flight towards it is gone
         /\ UNCHANGED <<cIn, cOut, uIn, uOut, cSent, uSent, cGot, uGot, uPeer, cbuf, ubuf, mustFlush, readsTeared, upBroken, upClosed, dead, cause>>
UClose == HasUp /\ uPeer # "closed" /\ ~dead /\ uPeer' = "closed"
         /\ UNCHANGED <<cIn, cOut, uIn, uOut, cSent, uSent, cGot, uGot, cPeer, cbuf, ubuf, mustFlush, readsTeared, upBroken, upClosed, dead, cause>>

(* ---------------- the proxy: one loop iteration for this work ---------------- *)
FlushOne(b, w) == \* TcpConnection.flush(): first chunk, at most MAXSEND units, what the wire takes; [b, w] after
   IF b = <<>> \/ Len(w) >= CAP THEN [b |-> b, w |-> w]
   ELSE LET h == Head(b)
            n == Min2(Min2(Len(h), MAXSEND), CAP - Len(w))
        IN [b |-> IF n = Len(h) THEN Tail(b) ELSE <<SubSeq(h, n + 1, Len(h))>> \o Tail(b),
            w |-> w \o SubSeq(h, 1, n)]
upOpen    == HasUp                     \* (a broken write side is found out again by every flush attempt: upBroken only records it)
cReadable == cIn # <<>> \/ cPeer \in {"wrshut", "closed"}
cWritable == Len(cOut) < CAP \/ cPeer = "closed"
uReadable == uIn # <<>> \/ uPeer \in {"wrshut", "closed"}
uWritable == Len(uOut) < CAP \/ uPeer = "closed"
wantCR == ~mustFlush                 \* get_events: read interest dropped during the final flush
wantCW == cbuf # <<>>
wantUR == HasUp                      \* a broken WRITE side (FIX) does not stop reading what the upstream already sent
wantUW == upOpen /\ ubuf # <<>>       \* (also after the upstream's end of stream, upClosed: its socket stays open until shutdown)
Ready == (wantCR /\ cReadable) \/ (wantCW /\ cWritable) \/ (wantUR /\ uReadable) \/ (wantUW /\ uWritable)

Tick == /\ ~dead /\ Ready
  /\ LET rCR == wantCR /\ cReadable    rCW == wantCW /\ cWritable
         rUR == wantUR /\ uReadable    rUW == wantUW /\ uWritable
         \* 1. client flush (handle_writables)
         cErr == rCW /\ cPeer = "closed"
         f1 == IF rCW /\ ~cErr THEN FlushOne(cbuf, cOut) ELSE [b |-> cbuf, w |-> cOut]
         \* as built: what the plugin still had to write when this iteration's events were collected (get_events) goes out
         \* before the handler gives up a client that is gone or has ended its stream; intended: the same, judged afresh
         pend0 == wantUW
         cFlushed == rCW /\ ~cErr /\ mustFlush /\ f1.b = <<>>
         td1 == ~FIX /\ (cErr \/ cFlushed) /\ ~pend0
         cg1 == cErr /\ (FIX \/ pend0)                \* client is gone: its queue is dropped, reads are torn down, the upstream queue drains
         mf1 == ~FIX /\ cFlushed /\ pend0             \* final flush done but the plugin has output pending: finish that first
         \* 2. upstream flush (plugin.write_to_descriptors)
         uErr == ~td1 /\ rUW /\ uPeer = "closed"
         f2 == IF ~td1 /\ rUW /\ ~uErr THEN FlushOne(ubuf, uOut) ELSE [b |-> ubuf, w |-> uOut]
         td2 == td1
         ub2 == uErr                                   \* a failed write: what is queued for the upstream is dropped, reading it goes on to its end
         \* 3. client read (handle_readables -> handle_data -> on_client_data)
         doCR == ~td2 /\ ~readsTeared /\ ~cg1 /\ ~mf1 /\ rCR
         cEof == doCR /\ cIn = <<>>
         nC == IF doCR /\ ~cEof THEN Min2(Len(cIn), RECV) ELSE 0
         ub2b == IF ub2 THEN <<>> ELSE f2.b            \* the failed flush dropped the queue
         ubuf3 == IF nC > 0 /\ HasUp THEN Append(ub2b, SubSeq(cIn, 1, nC)) ELSE ub2b
         \* end of stream from the client: with output pending for it (it may only have closed its sending side) the handler
         \* switches to flush-then-close (BaseTcpServerHandler.handle_readables), otherwise reads are torn down
         cEofFlush == cEof /\ f1.b # <<>>
         rt3 == readsTeared \/ (cEof /\ ~cEofFlush) \/ cg1 \/ mf1
         \* 3b. upstream read (plugin.read_from_descriptors), only while reads are not torn down
         doUR == ~td2 /\ ~rt3 /\ rUR
         uEof == doUR /\ uIn = <<>>
         nU == IF doUR /\ ~uEof THEN Min2(Len(uIn), RECV) ELSE 0
         cbuf3 == IF cg1 THEN <<>> ELSE IF nU > 0 THEN Append(f1.b, SubSeq(uIn, 1, nU)) ELSE f1.b
         rt4 == rt3 \/ uEof
         \* 4. teardown decision
         drainedUp == ubuf3 = <<>> \/ ub2 \/ upBroken \/ uPeer # "open" \/ ~HasUp
         \* as built: ignores ubuf (F20); intended: the final flush (mustFlush) also waits for the upstream queue
         td == td2 \/ (IF FIX THEN (rt4 \/ mustFlush \/ cEofFlush) /\ cbuf3 = <<>> /\ drainedUp ELSE rt4 /\ cbuf3 = <<>> /\ ~pend0)
     IN /\ cOut' = f1.w /\ uOut' = f2.w
        /\ cIn' = SubSeq(cIn, nC + 1, Len(cIn)) /\ uIn' = SubSeq(uIn, nU + 1, Len(uIn))
        /\ cbuf' = cbuf3 /\ ubuf' = ubuf3
        /\ readsTeared' = rt4 /\ upBroken' = (upBroken \/ ub2) /\ upClosed' = (upClosed \/ uEof) /\ dead' = td
        /\ cause' = IF cErr THEN "cerr" ELSE IF td1 /\ cause = "" THEN "flushed" ELSE IF uErr THEN "uerr"
                    ELSE IF cause # "" THEN cause           \* the first reason reads were torn down is kept
                    ELSE IF cEof THEN "ceof" ELSE IF uEof THEN "ueof" ELSE ""
        /\ mustFlush' = ((mustFlush \/ cEofFlush) /\ ~mf1 /\ ~(cg1 /\ ~FIX))
        /\ UNCHANGED <<cSent, uSent, cGot, uGot, cPeer, uPeer>>
Next == CSend \/ USend \/ CRead \/ URead \/ CShut \/ UShut \/ CClose \/ UClose \/ Tick
Spec == Init /\ [][Next]_vars
FairSpec == Spec /\ WF_vars(Tick) /\ WF_vars(CRead) /\ WF_vars(URead)
\* Behaviour generation (tlc -simulate): the same actions, but endings are postponed so that random walks reach
\* long exchanges too.  Every GenSpec behaviour is a Spec behaviour.
Late == TLCGet("level") > LATE
LCShut == Late /\ CShut
LUShut == Late /\ UShut
LCClose == Late /\ CClose
LUClose == Late /\ UClose
GenNext == CSend \/ USend \/ CRead \/ URead \/ Tick \/ LCShut \/ LUShut \/ LCClose \/ LUClose
GenSpec == Init /\ [][GenNext]_vars

(* ---------------- properties ---------------- *)
Stream(k) == [i \in 1..k |-> i]
OwnStream == [i \in 1..OWN |-> OwnUnit(i)]
\* C01: everything taken off a wire is still in the pipeline, once, in order (until the proxy gives up the connection)
IntegrityUC == dead \/ cPeer = "closed" \/ ( IF SCEN = "reject" THEN cGot \o cOut \o Flat(cbuf) = OwnStream
                         ELSE cGot \o cOut \o Flat(cbuf) \o uIn = Stream(uSent) )
IntegrityCU == dead \/ upBroken \/ ~HasUp \/ SCEN = "http" \/ uGot \o uOut \o Flat(ubuf) \o cIn = Stream(cSent)
\* what the peers have read is always a prefix of what was sent to them, unmodified
PrefixC == IF SCEN = "reject" THEN IsPrefix(cGot, OwnStream) ELSE IsPrefix(cGot, Stream(uSent))
PrefixU == IsPrefix(uGot, Stream(cSent))
\* C07 / C01: when the proxy ends the connection nothing it holds for a peer that can still receive is dropped
ExcuseF12 == FALSE        \* (F12 - teardown on a failed write to the upstream - was fixed in the code: nothing to excuse any more)
ExcuseF20 == FALSE       \* (F20 - client ended, upstream queue dropped - was fixed in the code)
NoDropToClient   == (dead /\ cPeer # "closed" /\ ~ExcuseF12) => cbuf = <<>>
NoDropToUpstream == (dead /\ HasUp /\ uPeer = "open" /\ ~upBroken /\ ~ExcuseF20) => ubuf = <<>>
\* C07: during the final flush the proxy does not read from the client
\* (checked as an action property: mustFlush => cIn unchanged by Tick)
NoReadWhileFlushing == [][(mustFlush /\ ~dead) => Len(cIn') >= Len(cIn)]_vars
\* liveness (FairSpec): if the upstream ends and the client keeps reading, the client gets everything and the proxy closes
Delivered == (HasUp /\ <>[](cPeer = "open" /\ uPeer # "open")) => <>(dead /\ (cbuf = <<>> \/ ExcuseF12))
FlushedAndClosed == (SCEN = "reject" /\ [](cPeer = "open")) => <>(dead /\ cbuf = <<>>)
\* and then the client application can read all of it
AllRead == (HasUp /\ [](cPeer = "open") /\ <>[](uPeer # "open")) => <>(dead /\ (ExcuseF12 \/ cGot = Stream(uSent)))
=============================================================================
