SPECIFICATION Spec
INVARIANT IntegrityUC
INVARIANT IntegrityCU
INVARIANT PrefixC
INVARIANT PrefixU
INVARIANT NoDropToClient
INVARIANT NoDropToUpstream
PROPERTY NoReadWhileFlushing
CHECK_DEADLOCK FALSE
