------------------------------ MODULE Resources ------------------------------
(* C10: the resource discipline of one proxied connection inside a worker.                                              *)
(* Descriptors are NUMBERS that the kernel reuses (lowest free), which is why "exactly once" matters: a second release of   *)
(* a number may hit a descriptor that by then belongs to somebody else.                                                   *)
(*   open     descriptors currently open on behalf of the connection                                                     *)
(*   sel      descriptors of it currently registered with the worker's selector                                          *)
(*   over     the connection is over (the worker has forgotten it)                                                       *)
(* Actions = what the code may do; the guards ARE the discipline (a recorded execution whose next event is not enabled     *)
(* breaks it, see TraceRes.tla).  TLC checks that under the discipline nothing can remain at the end (NoResidue) and         *)
(* nothing is ever released twice (by construction of the guards: Close and Unregister need the descriptor to be held).     *)
EXTENDS Naturals, FiniteSets, TLC
CONSTANTS FD           \* descriptor numbers, e.g. 100..103
VARIABLES open, sel, over, ever
vars == <<open, sel, over, ever>>
Init == open = {} /\ sel = {} /\ over = FALSE /\ ever = 0
Open(fd)       == ~over /\ fd \notin open /\ ever < Cardinality(FD) + 2 /\ open' = open \cup {fd} /\ ever' = ever + 1 /\ UNCHANGED <<sel, over>>
Register(fd)   == ~over /\ fd \in open /\ fd \notin sel /\ sel' = sel \cup {fd} /\ UNCHANGED <<open, over, ever>>
Unregister(fd) == fd \in sel /\ sel' = sel \ {fd} /\ UNCHANGED <<open, over, ever>>
\* a descriptor is closed by the code that owns it (explicitly: not left to the garbage collector); the kernel forgets a
\* closed descriptor in the selector's kernel set, the selector's own table entry must still be removed before the end
Close(fd)      == fd \in open /\ open' = open \ {fd} /\ UNCHANGED <<sel, over, ever>>
\* the connection is over only when nothing of it is left
End            == ~over /\ open = {} /\ sel = {} /\ over' = TRUE /\ UNCHANGED <<open, sel, ever>>
Next == (\E fd \in FD : Open(fd) \/ Register(fd) \/ Unregister(fd) \/ Close(fd)) \/ End
Spec == Init /\ [][Next]_vars
NoResidue == over => (open = {} /\ sel = {})
\* a released number is never released again while it is not held (safety as an action property over the log of releases)
NeverTwice == [][\A fd \in FD : (fd \in open /\ fd \notin open') => fd \in open]_vars
=============================================================================
