----------------------------- MODULE ParseView -----------------------------
(* Comparison of the observable state of the implementation's parser ("view": completion, start-line fields,   *)
(* headers, decoded body, remainder) with the reference semantics of Http.tla / Target.tla.  tag = property id   *)
(* the clause is reported under.                                                                                *)
EXTENDS Target

\* the fields DERIVED from the request-target (host, port, path) are C14's subject; C15 compares method and version only
StrictTarget(tag) == tag = "C14"
ReqLineWhy(v, e, tag) ==
    IF Len(e.parts) # 3 THEN "machinery: corpus request line does not have three parts"
    ELSE LET connect == e.parts[1] = LitConnect
             t == ParseTarget(e.parts[2], connect)
         IN IF ~t.ok THEN "machinery: corpus request-target is not valid"
            ELSE IF v.method # e.parts[1] \/ v.version # e.parts[3] THEN tag \o " start-line fields differ from the reference (method / version)"
            ELSE IF ~StrictTarget(tag) THEN "ok"
            ELSE IF t.form # "origin" /\ ~(v.host = t.host \/ v.host = <<91>> \o t.host \o <<93>>)
                 THEN tag \o " start-line fields differ from the reference (host of the target)"
            ELSE IF t.form # "origin" /\ v.port # t.port THEN tag \o " start-line fields differ from the reference (port of the target)"
            ELSE IF t.form # "authority" /\ ~(v.path = t.path \/ (v.path = <<>> /\ t.path = <<47>>))
                 THEN tag \o " start-line fields differ from the reference (path of the target)"
            ELSE "ok"
ResLineWhy(v, e, tag) ==
    IF Len(e.parts) < 2 THEN "machinery: corpus status line has fewer than two parts"
    ELSE IF v.version # e.parts[1] \/ v.code # e.parts[2] THEN tag \o " start-line fields differ from the reference (version / status code)"
    ELSE IF v.reason # (IF Len(e.parts) = 3 THEN e.parts[3] ELSE <<>>) THEN tag \o " start-line fields differ from the reference (reason phrase)"
    ELSE "ok"
ViewWhy(kind, bytes, v, e, tag) ==
    IF v.exc # "" THEN tag \o " parser raised " \o v.exc \o " on a valid message"
    ELSE IF ~v.complete THEN tag \o " parser not complete although the whole message was supplied"
    ELSE LET lw == IF kind = "req" THEN ReqLineWhy(v, e, tag) ELSE IF kind = "res" THEN ResLineWhy(v, e, tag) ELSE "ok" IN
         IF lw # "ok" THEN lw
         ELSE IF kind # "chunk" /\ {<<Lower(v.hdrs[i][1]), v.hdrs[i][2]>> : i \in 1..Len(v.hdrs)} # HdrSet(e.hdrs)
              THEN tag \o " headers differ from the reference"
         ELSE IF v.body # e.body THEN tag \o " decoded body differs from the reference"
         ELSE IF v.rest # Rest(bytes, e) THEN tag \o " bytes after the message are not preserved untouched as remainder"
         ELSE "ok"

=============================================================================
