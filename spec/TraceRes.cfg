SPECIFICATION TSpec
CONSTANTS
 FD = {100}
CONSTRAINT Report
INVARIANT NoResidue
CHECK_DEADLOCK FALSE
