---------------------------- MODULE PluginChain ----------------------------
(* Design model of the forward proxy's plugin chain for one client connection (C09), shaped like the code:       *)
(*   HttpProxyPlugin.on_request_complete  (proxy/http/proxy/server.py: chains before_upstream_connection ->      *)
(*       connect_upstream -> handle_client_request -> forward)                                                   *)
(*   HttpProxyPlugin.on_client_data       (follow-up requests: handle_client_request chain -> forward)            *)
(*   HttpProxyPlugin.read_from_descriptors (handle_upstream_chunk chain -> client)                                *)
(*   HttpProxyPlugin.on_client_connection_close (on_access_log chain, on_upstream_connection_close for all)       *)
(* Plugins 1..NP are the configured order.  A PROGRAM fixes what each plugin does in each hook:                   *)
(*   buc (before_upstream_connection): pass | mod | drop (return None) | rej (raise HttpRequestRejected)          *)
(*   hcr (handle_client_request):      pass | mod | drop | rej | drop2 (drop on its second invocation only)        *)
(*   huc (handle_upstream_chunk):      pass | mod | drop                                                          *)
(*   log (on_access_log):              pass | none (return None: ends the access-log chain)                        *)
(*   hcd (handle_client_data):         pass | drop (return None: ends the chain) - consulted for every further segment the      *)
(*                                     client sends on a connection for which NO upstream connection was made               *)
(*   dns (resolve_dns):                none | ip (names the address to connect to: the first such plugin wins and     *)
(*                                     ends the resolve chain)                                                      *)
(* auth: "off" | "ok" | "bad" - the authentication plugin sits AHEAD of plugin 1.                                  *)
(* ending: how the connection ends.  Every step of the model is one hook call or one observable effect, so the    *)
(* call log of a real execution can be stepped through the same actions (spec/TraceChain.tla).                     *)
EXTENDS Naturals, Sequences, FiniteSets, TLC
CONSTANTS NP, NREQ, MAXDEV

BUC == {"pass", "mod", "drop", "rej"}
HCR == {"pass", "mod", "drop", "rej", "drop2"}
HUC == {"pass", "mod", "drop"}
LOG == {"pass", "none"}
DNS == {"none", "ip"}
HCD == {"pass", "drop"}
Endings == {"normal", "cabort", "uabort", "refused"}
Behaviour == [buc : BUC, hcr : HCR, huc : HUC, log : LOG, dns : DNS, hcd : HCD]
Dev(b) == (IF b.buc = "pass" THEN 0 ELSE 1) + (IF b.hcr = "pass" THEN 0 ELSE 1) + (IF b.huc = "pass" THEN 0 ELSE 1)
          + (IF b.log = "pass" THEN 0 ELSE 1) + (IF b.dns = "none" THEN 0 ELSE 1) + (IF b.hcd = "pass" THEN 0 ELSE 1)
Programs == {pr \in [1..NP -> Behaviour] : \A p \in 1..NP : Dev(pr[p]) <= MAXDEV}

VARIABLES prog, auth, ending,
          pc, i, r,          \* phase, next plugin of the current chain, request number
          tags,              \* modifications applied to the current request: Seq of <<plugin, hook>>
          rtags,             \* modifications applied to the current response chunk: Seq of plugin
          nhcr,              \* [plugin -> number of handle_client_request invocations so far]
          calls,             \* history: Seq of [p, h, seen]   (seen = tags / rtags on entry)
          dest,              \* 0 = the address the request names, p = the address plugin p's resolve_dns returned
          conn,              \* "none" | "ok" | "failed"
          doconn,            \* before_upstream_connection chain did not say "no connection"
          fwd,               \* Seq of tag sequences: the requests forwarded to the origin, in order
          out,               \* Seq of what the client is sent: <<"rej", p, h>> | <<"502">> | <<"407">> | <<"resp", rtags>>
          closed             \* the proxy has closed the client connection by its own decision
vars == <<prog, auth, ending, pc, i, r, tags, rtags, nhcr, calls, conn, doconn, fwd, out, closed, dest>>

Init == /\ prog \in Programs /\ auth \in {"off", "ok", "bad"} /\ ending \in Endings
        /\ pc = "auth" /\ i = 1 /\ r = 1 /\ tags = <<>> /\ rtags = <<>> /\ nhcr = [p \in 1..NP |-> 0] /\ calls = <<>>
        /\ conn = "none" /\ doconn = TRUE /\ fwd = <<>> /\ out = <<>> /\ closed = FALSE /\ dest = 0

Call(p, h, seen) == calls' = Append(calls, [p |-> p, h |-> h, seen |-> seen])
Goto(ph) == pc' = ph /\ i' = 1

\* the authentication plugin is the first of the before_upstream_connection chain
Auth == /\ pc = "auth"
        /\ IF auth = "bad" THEN out' = Append(out, <<"407">>) /\ closed' = TRUE /\ Goto("log")
           ELSE Goto("buc") /\ UNCHANGED <<out, closed>>
        /\ UNCHANGED <<prog, auth, ending, r, tags, rtags, nhcr, calls, conn, doconn, fwd, dest>>

Buc == /\ pc = "buc"
       /\ IF i > NP
          THEN /\ Goto(IF doconn THEN "dns" ELSE "hcr")
               /\ UNCHANGED <<tags, calls, out, closed, doconn>>
          ELSE /\ Call(i, "buc", tags)
               /\ LET b == prog[i].buc IN
                  CASE b = "pass" -> i' = i + 1 /\ UNCHANGED <<pc, tags, out, closed, doconn>>
                    [] b = "mod"  -> i' = i + 1 /\ tags' = Append(tags, <<i, "buc">>) /\ UNCHANGED <<pc, out, closed, doconn>>
                    [] b = "drop" -> doconn' = FALSE /\ Goto("hcr") /\ UNCHANGED <<tags, out, closed>>     \* chain ends, no connection
                    [] b = "rej"  -> out' = Append(out, <<"rej", i, "buc">>) /\ closed' = TRUE /\ Goto("log") /\ UNCHANGED <<tags, doconn>>
       /\ UNCHANGED <<prog, auth, ending, r, rtags, nhcr, conn, fwd, dest>>

\* connect_upstream first asks the plugins, in order, for an address; the first one that names one ends the chain
Dns == /\ pc = "dns"
       /\ IF i > NP THEN Goto("connect") /\ UNCHANGED <<calls, dest>>
          ELSE /\ Call(i, "dns", <<>>)
               /\ IF prog[i].dns = "ip" THEN dest' = i /\ Goto("connect") ELSE i' = i + 1 /\ UNCHANGED <<pc, dest>>
       /\ UNCHANGED <<prog, auth, ending, r, tags, rtags, nhcr, conn, doconn, fwd, out, closed>>

Connect == /\ pc = "connect"
           /\ IF ending = "refused"
              THEN conn' = "failed" /\ out' = Append(out, <<"502">>) /\ closed' = TRUE /\ Goto("log")
              ELSE conn' = "ok" /\ Goto("hcr") /\ UNCHANGED <<out, closed>>
           /\ UNCHANGED <<prog, auth, ending, r, tags, rtags, nhcr, calls, doconn, fwd, dest>>

Hcr == /\ pc = "hcr"
       /\ IF i > NP
          THEN /\ IF conn = "ok" THEN fwd' = Append(fwd, <<r, tags>>) /\ Goto("resp") ELSE Goto("after") /\ UNCHANGED fwd
               /\ UNCHANGED <<tags, calls, out, closed, nhcr>>
          ELSE /\ Call(i, "hcr", tags)
               /\ nhcr' = [nhcr EXCEPT ![i] = @ + 1]
               /\ LET b == prog[i].hcr IN
                  CASE b = "pass" \/ (b = "drop2" /\ nhcr[i] + 1 # 2) -> i' = i + 1 /\ UNCHANGED <<pc, tags, out, closed, fwd>>
                    [] b = "mod"  -> i' = i + 1 /\ tags' = Append(tags, <<i, "hcr">>) /\ UNCHANGED <<pc, out, closed, fwd>>
                    [] b = "drop" \/ (b = "drop2" /\ nhcr[i] + 1 = 2) -> Goto("after") /\ UNCHANGED <<tags, out, closed, fwd>>   \* this request is not forwarded
                    [] b = "rej"  -> out' = Append(out, <<"rej", i, "hcr">>) /\ closed' = TRUE /\ Goto("log") /\ UNCHANGED <<tags, fwd>>
       /\ UNCHANGED <<prog, auth, ending, r, rtags, conn, doconn, dest>>

\* the origin answers request r (or goes away instead)
Resp == /\ pc = "resp"
        /\ IF ending = "cabort" \/ (ending = "uabort" /\ r = 1)
           THEN Goto("log") /\ UNCHANGED <<rtags, calls, out>>
           ELSE IF i > NP
           THEN out' = Append(out, <<"resp", rtags>>) /\ Goto("after") /\ UNCHANGED <<rtags, calls>>
           ELSE /\ Call(i, "huc", rtags)
                /\ LET b == prog[i].huc IN
                   CASE b = "pass" -> i' = i + 1 /\ UNCHANGED <<pc, rtags, out>>
                     [] b = "mod"  -> i' = i + 1 /\ rtags' = Append(rtags, i) /\ UNCHANGED <<pc, out>>
                     [] b = "drop" -> Goto("after") /\ UNCHANGED <<rtags, out>>       \* the chunk is not relayed
        /\ UNCHANGED <<prog, auth, ending, r, tags, nhcr, conn, doconn, fwd, closed, dest>>

\* between requests: the client sends the next request of a normal conversation, or the conversation ends
After == /\ pc = "after"
         /\ IF ending = "normal" /\ r < NREQ /\ conn = "ok"
            THEN r' = r + 1 /\ tags' = <<>> /\ rtags' = <<>> /\ Goto("hcr")
            ELSE IF ending = "normal" /\ r < NREQ /\ conn = "none" /\ ~doconn /\ ~closed
            THEN r' = r + 1 /\ Goto("hcd") /\ UNCHANGED <<tags, rtags>>      \* no upstream was wanted: further client data goes to the plugins
            ELSE Goto("log") /\ UNCHANGED <<r, tags, rtags>>
         /\ UNCHANGED <<prog, auth, ending, nhcr, calls, conn, doconn, fwd, out, closed, dest>>

\* handle_client_data chain for one further segment of the client (no upstream connection exists)
Hcd == /\ pc = "hcd"
       /\ IF i > NP THEN Goto("after") /\ UNCHANGED calls
          ELSE /\ Call(i, "hcd", <<>>)
               /\ IF prog[i].hcd = "drop" THEN Goto("after") ELSE i' = i + 1 /\ UNCHANGED pc
       /\ UNCHANGED <<prog, auth, ending, r, tags, rtags, nhcr, conn, doconn, fwd, out, closed, dest>>

\* the connection is over (whoever ended it): access-log chain, then on_upstream_connection_close of every plugin
Log == /\ pc = "log"
       /\ IF i > NP THEN Goto("close") /\ UNCHANGED calls
          ELSE /\ Call(i, "log", <<>>)
               /\ IF prog[i].log = "none" THEN Goto("close") ELSE i' = i + 1 /\ UNCHANGED pc
       /\ UNCHANGED <<prog, auth, ending, r, tags, rtags, nhcr, conn, doconn, fwd, out, closed, dest>>
Close == /\ pc = "close"
         /\ IF i > NP THEN Goto("done") /\ UNCHANGED calls
            ELSE Call(i, "close", <<>>) /\ i' = i + 1 /\ UNCHANGED pc
         /\ UNCHANGED <<prog, auth, ending, r, tags, rtags, nhcr, conn, doconn, fwd, out, closed, dest>>

Next == Auth \/ Buc \/ Dns \/ Connect \/ Hcr \/ Hcd \/ Resp \/ After \/ Log \/ Close
Spec == Init /\ [][Next]_vars

(* ---------------- the property, as invariants of the design ---------------- *)
Idx(h) == {k \in 1..Len(calls) : calls[k].h = h}
\* within one chain run plugins are called in configured order, each seeing what the previous ones returned
ChainOrder == \A k \in 1..(Len(calls) - 1) :
                 (calls[k].h = calls[k + 1].h /\ calls[k + 1].p # 1) => calls[k + 1].p = calls[k].p + 1
SeenChain == \A k \in 1..Len(calls) : calls[k].h \in {"buc", "hcr"} =>
                 \A t \in 1..Len(calls[k].seen) : calls[k].seen[t][1] < calls[k].p \/ calls[k].seen[t][2] = "buc"
\* "no request" from before_upstream_connection suppresses the connection; from handle_client_request the forwarding
DropSuppresses == (~doconn => conn = "none") /\ (conn # "ok" => fwd = <<>>)
\* a rejection: exactly the plugin's response, connection closed, no upstream contact (buc) / nothing forwarded of it (hcr)
RejectClean == \A k \in 1..Len(out) : out[k][1] = "rej" =>
                  /\ k = Len(out) /\ closed
                  /\ (out[k][3] = "buc" => conn = "none" /\ fwd = <<>>)
BadAuthClean == auth = "bad" => (conn = "none" /\ fwd = <<>> /\ \A k \in 1..Len(calls) : calls[k].h \in {"log", "close"})
\* lifecycle hooks: exactly once per plugin at the end (the access-log chain may be ended by a plugin returning None)
LifecycleOnce == pc = "done" =>
                  /\ \A p \in 1..NP : Cardinality({k \in Idx("close") : calls[k].p = p}) = 1
                  /\ \A p \in 1..NP : Cardinality({k \in Idx("log") : calls[k].p = p})
                                        = IF \E q \in 1..(p - 1) : prog[q].log = "none" THEN 0 ELSE 1
                  /\ \A k \in Idx("log") \cup Idx("close") : \A j \in 1..Len(calls) : (calls[j].h \notin {"log", "close"}) => j < k
\* the address connected to is the one named by the FIRST plugin whose resolve_dns names one; later plugins are not asked
DnsFirstWins == /\ (dest # 0 => prog[dest].dns = "ip" /\ \A q \in 1..(dest - 1) : prog[q].dns = "none")
                /\ \A k \in Idx("dns") : dest = 0 \/ calls[k].p <= dest
\* one response per forwarded request unless a plugin dropped the chunk or the conversation was cut short
Terminates == <>(pc = "done")
=============================================================================
