SPECIFICATION Spec
INVARIANT ChainOrder
INVARIANT SeenChain
INVARIANT DropSuppresses
INVARIANT RejectClean
INVARIANT BadAuthClean
INVARIANT LifecycleOnce
CHECK_DEADLOCK FALSE
