SPECIFICATION Spec
INVARIANT ChainOrder
INVARIANT SeenChain
INVARIANT DropSuppresses
INVARIANT RejectClean
INVARIANT BadAuthClean
INVARIANT LifecycleOnce
INVARIANT DnsFirstWins
CHECK_DEADLOCK FALSE
