SPECIFICATION Spec
CONSTRAINT Judge
CHECK_DEADLOCK FALSE
