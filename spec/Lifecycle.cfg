SPECIFICATION Spec
CONSTANTS
 Hosts = {"v4", "v6"}
 FixedPorts = {18899}
INVARIANT Up
INVARIANT Down
PROPERTY ReachesUpThenDown
CHECK_DEADLOCK FALSE
