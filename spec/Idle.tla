-------------------------------- MODULE Idle --------------------------------
(* C20: the idle reaper.  One established exchange (a tunnel) with an integer clock.                                    *)
(*   lastAct  = time of the last client-side traffic handled by the proxy: a read from the client, or a write to it        *)
(*   pending  = units of output the proxy still holds for the client (the client's wire is full)                          *)
(* Reap (the periodic sweep, Threadless._cleanup_inactive -> is_inactive) closes the connection iff it has no pending       *)
(* output and the clock is MORE than T past lastAct.  Upstream-side activity alone does not count as client traffic,       *)
(* but the output it produces for the client is pending output until it has been written.                                 *)
EXTENDS Naturals, TLC
CONSTANTS T,      \* timeout, in clock units
          CAP,    \* capacity of the wire towards the client, in units
          MAXT    \* horizon
VARIABLES now, lastAct, wire, pending, closed, reaped,
          sweeps,    \* number of sweeps so far (a sweep that finds nothing to do is still a step)
          touches    \* number of undeliverable arrivals so far (keeps the step distinct from a delivered unit)
vars == <<now, lastAct, wire, pending, closed, reaped, sweeps, touches>>
Init == now = 0 /\ lastAct = 0 /\ wire = 0 /\ pending = 0 /\ closed = FALSE /\ reaped = FALSE /\ sweeps = 0 /\ touches = 0

Advance == ~closed /\ now < MAXT /\ now' = now + 1 /\ UNCHANGED <<lastAct, wire, pending, closed, reaped, sweeps, touches>>
\* the client sends a unit: the proxy reads it in its next iteration (client-side traffic)
CSend == ~closed /\ lastAct' = now /\ UNCHANGED <<now, wire, pending, closed, reaped, sweeps, touches>>
\* bytes of the client arrive that cannot be handed on yet (part of a TLS record: the read answers "want read"): client-side
\* traffic all the same
CTouch == ~closed /\ touches < MAXT /\ lastAct' = now /\ touches' = touches + 1 /\ UNCHANGED <<now, wire, pending, closed, reaped, sweeps>>
\* the upstream sends a unit: the proxy queues it for the client and writes it if the wire has room (client-side traffic)
USend == /\ ~closed /\ pending + wire < CAP + 2
         /\ IF wire < CAP /\ pending = 0 THEN wire' = wire + 1 /\ lastAct' = now /\ UNCHANGED pending
            ELSE pending' = pending + 1 /\ UNCHANGED <<wire, lastAct>>
         /\ UNCHANGED <<now, closed, reaped, sweeps, touches>>
\* the client application reads a unit off the wire; the proxy can then write one pending unit (client-side traffic)
CRead == /\ ~closed /\ wire > 0
         /\ IF pending > 0 THEN pending' = pending - 1 /\ lastAct' = now /\ UNCHANGED wire
            ELSE wire' = wire - 1 /\ UNCHANGED <<pending, lastAct>>
         /\ UNCHANGED <<now, closed, reaped, sweeps, touches>>
Idle == pending = 0 /\ now - lastAct > T
Reap == /\ ~closed /\ sweeps < 2 * MAXT /\ sweeps' = sweeps + 1
        /\ IF Idle THEN closed' = TRUE /\ reaped' = TRUE ELSE UNCHANGED <<closed, reaped>>
        /\ UNCHANGED <<now, lastAct, wire, pending, touches>>
Next == Advance \/ CSend \/ CTouch \/ USend \/ CRead \/ Reap
Spec == Init /\ [][Next]_vars

\* the reaper only ever closes an idle connection (action property), and a sweep never leaves an idle one open
ReapedOnlyIfIdle == [][(reaped' /\ ~reaped) => Idle]_vars
NeverWithPending == reaped => pending = 0
=============================================================================
