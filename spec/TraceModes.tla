------------------------------ MODULE TraceModes ------------------------------
(* C17: (a) the recorded call sequence of the REAL delegate_work_to_pool (recording lock, pipe and send_handle) must follow    *)
(* the locked discipline of Dispatch.tla: acquire, address, descriptor, release, with BOTH messages sent while the lock is      *)
(* held; (b) differential: for every conversation of the scenario corpus the per-connection transcripts (bytes the client        *)
(* received and whether it saw end-of-stream, bytes every upstream connection received, in connect order) recorded from real     *)
(* proxy processes in threaded, local-threadless and remote-threadless mode must be identical.                                  *)
(* Case: [id, kind "delegate": events: Seq of STRING] | [id, kind "modes": t: [threaded, local, remote] each a Seq of records]   *)
EXTENDS Naturals, Sequences, Json, IOUtils, TLC
Cases == JsonDeserialize(IOEnv.TRACE_FILE)
VARIABLES tid, verdict
vars == <<tid, verdict>>
C == Cases[tid]
RECURSIVE Held(_, _)
\* walk the event sequence: -> "ok" or the first message sent while the lock is not held
Held(ev, h) == IF ev = <<>> THEN (IF h THEN "C17 delegate_work_to_pool returned with the worker lock still held" ELSE "ok")
               ELSE LET e == Head(ev) IN
                    IF e = "acquire" THEN Held(Tail(ev), TRUE)
                    ELSE IF e = "release" THEN Held(Tail(ev), FALSE)
                    ELSE IF e \in {"send_addr", "send_handle"} /\ ~h THEN "C17 hand-off to a remote worker: " \o e \o " happens outside the per-worker lock (the address / descriptor pair of two connections can interleave on the pipe)"
                    ELSE Held(Tail(ev), h)
Order(ev) == LET a == {k \in 1..Len(ev) : ev[k] = "send_addr"} f == {k \in 1..Len(ev) : ev[k] = "send_handle"} IN
             IF f = {} THEN "C17 hand-off to a remote worker: the descriptor is never sent"
             ELSE IF C.expectaddr /\ a = {} THEN "C17 hand-off to a remote worker: the peer address is not sent"
             ELSE IF a # {} /\ (CHOOSE k \in a : TRUE) > (CHOOSE k \in f : TRUE) THEN "C17 hand-off to a remote worker: descriptor sent before the address"
             ELSE "ok"
DiffWhy(a, b, na, nb) ==
    IF Len(a) # Len(b) THEN "C17 " \o na \o " and " \o nb \o " modes differ in the number of connections observed"
    ELSE LET bad == {k \in 1..Len(a) : a[k] # b[k]} IN
         IF bad = {} THEN "ok"
         ELSE LET k == CHOOSE k \in bad : \A j \in bad : k <= j IN
              "C17 " \o na \o " and " \o nb \o " modes differ on connection " \o ToString(k) \o ": " \o
              (IF a[k].cgot # b[k].cgot THEN "bytes the client received"
               ELSE IF a[k].ceof # b[k].ceof THEN "whether / when the client saw the close"
               ELSE IF a[k].ugot # b[k].ugot THEN "bytes the upstream(s) received" ELSE "order of data and close events")
Why == IF C.kind = "delegate" THEN (IF Held(C.events, FALSE) # "ok" THEN Held(C.events, FALSE) ELSE Order(C.events))
       ELSE LET d1 == DiffWhy(C.t.threaded, C.t.local, "threaded", "local-threadless")
                d2 == DiffWhy(C.t.local, C.t.remote, "local-threadless", "remote-threadless")
            IN IF d1 # "ok" THEN d1 ELSE d2
TInit == tid \in 1..Len(Cases) /\ verdict = ""
TNext == verdict = "" /\ verdict' = Why /\ UNCHANGED tid
TSpec == TInit /\ [][TNext]_vars
Report == verdict \in {"", "ok"} \/ PrintT("REJECTED|" \o ToString(C.id) \o "|" \o verdict)
=============================================================================
