----------------------------- MODULE TraceFlush -----------------------------
(* C07 on kernel sockets (RealNet): a REAL proxy process, a real origin that sends its output and ends the connection, a       *)
(* client that keeps reading at its own pace.  What the proxy owes the client before it closes is known per scenario           *)
(* (expected = length of the output, sum = a position-weighted checksum computed by the harness over both byte strings):     *)
(* the client must receive exactly that, then end-of-stream, promptly.                                                        *)
(* Case: [id, prop ("C07" | "C01"), who ("client" | "origin"), explen, expsum, gotlen, gotsum, eof, wait_ms, limit_ms]              *)
(* (also used by C01 for both directions of real tunnels: what one side sent is what the other side received)                  *)
EXTENDS Naturals, Sequences, Json, IOUtils, TLC
Cases == JsonDeserialize(IOEnv.TRACE_FILE)
VARIABLES tid, verdict
vars == <<tid, verdict>>
C == Cases[tid]
Why ==
    IF C.gotlen < C.explen THEN C.prop \o " the " \o C.who \o " received " \o ToString(C.gotlen) \o " of " \o ToString(C.explen) \o " bytes before "
                                  \o (IF C.eof THEN "end-of-stream" ELSE "the connection went quiet")
    ELSE IF C.gotlen > C.explen THEN C.prop \o " the " \o C.who \o " received more bytes than were sent to it"
    ELSE IF C.gotsum # C.expsum THEN C.prop \o " the " \o C.who \o " received the right number of bytes but not the bytes that were sent (order / content)"
    ELSE IF ~C.eof THEN C.prop \o " the connection was not closed after everything had been delivered"
    ELSE IF C.wait_ms > C.limit_ms THEN C.prop \o " the close did not follow promptly once everything was out (" \o ToString(C.wait_ms) \o " ms)"
    ELSE "ok"
TInit == tid \in 1..Len(Cases) /\ verdict = ""
TNext == verdict = "" /\ verdict' = Why /\ UNCHANGED tid
TSpec == TInit /\ [][TNext]_vars
Report == verdict \in {"", "ok"} \/ PrintT("REJECTED|" \o ToString(C.id) \o "|" \o verdict)
=============================================================================
