SPECIFICATION Spec
CONSTANTS
 Addr = {"a", "b"}
 MAXC = 3
 UNAMBIG = FALSE
INVARIANT KnownOpen
INVARIANT ForgottenClosed
PROPERTY NeverLentTwice
CHECK_DEADLOCK FALSE
