---------------------------- MODULE TraceSha1 ----------------------------
(* (key, accept) pairs recorded from WebsocketFrame.key_to_accept are the trace; SHA-1 runs as  *)
(* a state machine (one round per step) and the terminal state must reproduce the logged token. *)
EXTENDS Sha1, Json, IOUtils

Pairs == JsonDeserialize(IOEnv.TRACE_FILE)       \* sequence of [id, key, accept]
Msg(k) == Pairs[k].key \o GUID

VARIABLES kidx, off, t, st, h, w
vars == <<kidx, off, t, st, h, w>>
WOf(bs, o) == Sched([i \in 1..16 |-> Word(bs, o + 4 * (i - 1))], 17)
Start(k) == /\ kidx = k /\ off = 1 /\ t = 1 /\ h = H0 /\ st = H0 /\ w = WOf(Pad(Msg(k)), 1)
Init == \E k \in 1..Len(Pairs) : Start(k)
Round == /\ t <= 80
         /\ LET tmp == Add5(Rotl(st[1], 5), F(t, st[2], st[3], st[4]), st[5], K(t), w[t])
            IN st' = <<tmp, st[1], Rotl(st[2], 30), st[3], st[4]>>
         /\ t' = t + 1 /\ UNCHANGED <<kidx, off, h, w>>
EndBlock == /\ t = 81
            /\ h' = [i \in 1..5 |-> Add2(h[i], st[i])]
            /\ off' = off + 64
            /\ IF off + 64 <= Len(Pad(Msg(kidx)))
                  THEN /\ t' = 1 /\ st' = h' /\ w' = WOf(Pad(Msg(kidx)), off + 64)
                  ELSE /\ t' = 82 /\ st' = st /\ w' = w
            /\ UNCHANGED kidx
Next == Round \/ EndBlock
Spec == Init /\ [][Next]_vars
Digest == [i \in 1..20 |-> LET wd == h[(i - 1) \div 4 + 1] k == (i - 1) % 4
                           IN IF k = 0 THEN wd[1] \div 256 ELSE IF k = 1 THEN wd[1] % 256
                              ELSE IF k = 2 THEN wd[2] \div 256 ELSE wd[2] % 256]
Judge == t = 82 => (B64(Digest) = Pairs[kidx].accept
                    \/ PrintT("REJECTED|" \o ToString(Pairs[kidx].id) \o "|accept token differs from base64(SHA-1(key + GUID))"))
=============================================================================
