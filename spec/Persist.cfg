SPECIFICATION FairSpec
CONSTANTS
 NREQ = 3
 Origins = {"a", "b"}
 Polite = FALSE
INVARIANT OneResponsePerRequestInOrder
INVARIANT RightOrigin
PROPERTY AllAnswered
CHECK_DEADLOCK FALSE
