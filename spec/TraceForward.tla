---------------------------- MODULE TraceForward ----------------------------
(* C02: what the origin receives is semantically the client's request.                                         *)
(* A case is one recorded conversation through the real forward proxy:                                          *)
(*   reqs     the requests the client sent on the connection, in order (each a complete well-formed message;     *)
(*            the harness delivered them to the proxy in arbitrary pieces)                                       *)
(*   ugot     every byte the origin received on the upstream connection                                          *)
(*   disabled lower-case names of operator-disabled headers                                                      *)
(* Both sides are parsed by the REFERENCE parser (Http.tla); Expected is computed here, not in the harness:      *)
(*   same method, origin-form of the same target, same version, same header fields minus proxy-authorization,     *)
(*   proxy-connection and the disabled ones, plus a Via naming the proxy, decoded body identical, framing sane.   *)
EXTENDS Target, Json, IOUtils, TLC

Cases == JsonDeserialize(IOEnv.TRACE_FILE)
VARIABLES tid, verdict
vars == <<tid, verdict>>
C == Cases[tid]

\* split a byte stream into the messages it consists of (at most n of them): <<messages, leftover>>
RECURSIVE Messages(_, _)
Messages(b, n) ==
    IF b = <<>> \/ n = 0 THEN <<<<>>, b>>
    ELSE LET m == ParseMsg(b) IN
         IF ~m.complete THEN <<<<>>, b>>
         ELSE LET r == Messages(Rest(b, m), n - 1) IN << <<m>> \o r[1], r[2] >>

Removed == {LitProxyAuthorization, LitProxyConnection} \cup {C.disabled[i] : i \in 1..Len(C.disabled)}
Contains(b, p) == \E i \in 1..(Len(b) - Len(p) + 1) : Sub(b, i, i + Len(p) - 1) = p
FwdHdrs(hs) == {p \in HdrSet(hs) : p[1] \notin {LitContentLength, LitVia}}
ExpHdrs(hs) == {p \in HdrSet(hs) : p[1] \notin Removed /\ p[1] \notin {LitContentLength, LitVia}}

ReqWhy(c, u, i) ==
    LET tc == ParseTarget(c.parts[2], FALSE) pos == " (request " \o ToString(i) \o " of the connection)" IN
    IF Len(c.parts) # 3 \/ ~tc.ok THEN "machinery: client request is not well formed for the reference"
    ELSE IF Len(u.parts) # 3 THEN "C02 forwarded request line is malformed" \o pos
    ELSE IF u.parts[1] # c.parts[1] THEN "C02 forwarded method differs" \o pos
    ELSE IF u.parts[3] # c.parts[3] THEN "C02 forwarded version differs" \o pos
    ELSE IF u.parts[2] # tc.path THEN "C02 forwarded target is not the origin-form of the client's target" \o pos
    ELSE IF \E p \in HdrSet(u.hdrs) : p[1] \in {LitProxyAuthorization, LitProxyConnection}
         THEN "C02 proxy credentials or Proxy-Connection forwarded to the origin" \o pos
    ELSE IF \E p \in HdrSet(u.hdrs) : p[1] \in Removed THEN "C02 operator-disabled header forwarded to the origin" \o pos
    ELSE IF FwdHdrs(u.hdrs) # ExpHdrs(c.hdrs) THEN "C02 forwarded header fields differ from the client's (name or value lost, altered or added)" \o pos
    ELSE IF ~(HasHdr(u.hdrs, LitVia) /\ Contains(HdrVal(u.hdrs, LitVia), LitProxyPy)) THEN "C02 forwarded request carries no Via field naming the proxy" \o pos
    ELSE IF HdrCount(u.hdrs, LitContentLength) > 1 THEN "C02 forwarded request carries more than one Content-Length" \o pos
    ELSE IF u.framing = "chunked" /\ HasHdr(u.hdrs, LitContentLength) THEN "C02 forwarded request carries both Content-Length and chunked coding" \o pos
    ELSE IF u.body # c.body THEN "C02 forwarded body differs from the client's decoded body" \o pos
    ELSE IF HasHdr(u.hdrs, LitContentLength) /\ DecVal(HdrVal(u.hdrs, LitContentLength)) # Len(u.body) THEN "C02 forwarded Content-Length differs from the body length" \o pos
    ELSE "ok"

Why ==
    LET n == Len(C.reqs)
        cs == [i \in 1..n |-> ParseMsg(C.reqs[i])]
        us == Messages(C.ugot, n + 1)
    IN IF \E i \in 1..n : ~cs[i].complete \/ cs[i].end # Len(C.reqs[i]) THEN "machinery: client request is not one complete message for the reference"
       ELSE IF Len(us[1]) < n
            THEN "C02 request " \o ToString(Len(us[1]) + 1) \o " of the connection never reached the origin complete and well formed (origin got "
                 \o ToString(Len(us[1])) \o " complete request(s), " \o ToString(Len(us[2])) \o " further bytes)"
       ELSE IF Len(us[1]) > n \/ us[2] # <<>> THEN "C02 the origin received bytes beyond the client's requests"
       ELSE LET bad == {i \in 1..n : ReqWhy(cs[i], us[1][i], i) # "ok"} IN
            IF bad = {} THEN "ok" ELSE ReqWhy(cs[MinOf(bad)], us[1][MinOf(bad)], MinOf(bad))

TInit == tid \in 1..Len(Cases) /\ verdict = ""
TNext == verdict = "" /\ verdict' = Why /\ UNCHANGED tid
TSpec == TInit /\ [][TNext]_vars
Report == verdict \in {"", "ok"} \/ PrintT("REJECTED|" \o ToString(C.id) \o "|" \o verdict)
=============================================================================
