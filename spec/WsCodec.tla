---------------------------- MODULE WsCodec ----------------------------
(* RFC 6455 section 5.2 base framing, byte for byte, as a reference encoder / decoder.          *)
(* Frames are records [fin, rsv1, rsv2, rsv3 : BOOLEAN, opcode : 0..15, masked : BOOLEAN,       *)
(* key : Seq(0..255) of length 4 (ignored when not masked), payload : Seq(0..255)].            *)
(* TLC integers are 32 bit: payload lengths stay below 2^31, the 64-bit length field is         *)
(* produced as 8 bytes whose upper four are zero.                                               *)
EXTENDS Naturals, Sequences, Bitwise

B(b) == IF b THEN 1 ELSE 0

Byte0(f) == 128 * B(f.fin) + 64 * B(f.rsv1) + 32 * B(f.rsv2) + 16 * B(f.rsv3) + f.opcode

LenField(f, n) ==
    IF n < 126 THEN << 128 * B(f.masked) + n >>
    ELSE IF n < 65536 THEN << 128 * B(f.masked) + 126, n \div 256, n % 256 >>
    ELSE << 128 * B(f.masked) + 127, 0, 0, 0, 0,
            (n \div 16777216) % 256, (n \div 65536) % 256, (n \div 256) % 256, n % 256 >>

Mask(data, key) == [i \in 1..Len(data) |-> data[i] ^^ key[((i - 1) % 4) + 1]]

Encode(f) ==
    LET n == Len(f.payload)
    IN  << Byte0(f) >> \o LenField(f, n) \o
        (IF f.masked THEN f.key \o Mask(f.payload, f.key) ELSE f.payload)

(* Header length of an encoded frame whose first two bytes are b0 b1. *)
ExtLen(b1) == LET l7 == b1 % 128 IN IF l7 = 126 THEN 2 ELSE IF l7 = 127 THEN 8 ELSE 0

(* Reference decoder: one frame off the front of `bs`; `ok` is FALSE when bs does not hold a whole *)
(* frame (or the length needs more than 31 bits).                                                 *)
Decode(bs) ==
    IF Len(bs) < 2 THEN [ok |-> FALSE]
    ELSE
    LET b0 == bs[1]  b1 == bs[2]
        masked == b1 >= 128
        l7 == b1 % 128
        ext == ExtLen(b1)
    IN IF Len(bs) < 2 + ext THEN [ok |-> FALSE]
       ELSE
       LET big == l7 = 127 /\ (bs[3] # 0 \/ bs[4] # 0 \/ bs[5] # 0 \/ bs[6] # 0 \/ bs[7] >= 128)
           n == IF l7 < 126 THEN l7
                ELSE IF l7 = 126 THEN bs[3] * 256 + bs[4]
                ELSE IF big THEN 0
                ELSE bs[7] * 16777216 + bs[8] * 65536 + bs[9] * 256 + bs[10]
           koff == 2 + ext
           doff == koff + (IF masked THEN 4 ELSE 0)
       IN IF big \/ Len(bs) < doff + n THEN [ok |-> FALSE]
          ELSE LET key == IF masked THEN SubSeq(bs, koff + 1, koff + 4) ELSE <<>>
                   raw == SubSeq(bs, doff + 1, doff + n)
               IN [ok |-> TRUE,
                   fin |-> (b0 \div 128) % 2 = 1, rsv1 |-> (b0 \div 64) % 2 = 1,
                   rsv2 |-> (b0 \div 32) % 2 = 1, rsv3 |-> (b0 \div 16) % 2 = 1,
                   opcode |-> b0 % 16, masked |-> masked, key |-> key,
                   payload |-> IF masked THEN Mask(raw, key) ELSE raw,
                   rest |-> SubSeq(bs, doff + n + 1, Len(bs))]

(* The payloads of the case space are a position-dependent pattern, so that large ones are      *)
(* computed rather than stored: byte i (1-based) of Pat(n, salt).                               *)
Pat(n, salt) == [i \in 1..n |-> (i * 7 + salt * 31 + (i \div 251)) % 256]

SameFrame(f, d) ==
    /\ d.ok
    /\ d.fin = f.fin /\ d.rsv1 = f.rsv1 /\ d.rsv2 = f.rsv2 /\ d.rsv3 = f.rsv3
    /\ d.opcode = f.opcode /\ d.masked = f.masked
    /\ (f.masked => d.key = f.key)
    /\ d.payload = f.payload
=============================================================================
