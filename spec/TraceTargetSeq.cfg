SPECIFICATION TSpec
CONSTRAINT Report
CHECK_DEADLOCK FALSE
