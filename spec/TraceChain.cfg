SPECIFICATION TSpec
CONSTRAINT Report
INVARIANT ChainOrder
INVARIANT DropSuppresses
INVARIANT RejectClean
INVARIANT LifecycleOnce
CHECK_DEADLOCK FALSE
