---------------------------- MODULE Sha1 ----------------------------
(* SHA-1 (FIPS 180-4) and base64 over byte sequences, for the WebSocket accept token             *)
(* (RFC 6455 section 4.2.2: accept = base64(SHA-1(key \o GUID))).                                *)
(* 32-bit words are pairs <<hi, lo>> of 16-bit limbs because TLC integers are 32-bit signed.     *)
(* The recursive operators Rounds/Blocks are kept for documentation; TLC evaluates such folds   *)
(* lazily and overflows its stack on them, so TraceSha1 runs the same round function as a       *)
(* state machine, one round per transition.                                                     *)
EXTENDS Integers, Sequences, Bitwise, TLC
M16 == 65536
W(hi, lo) == <<hi, lo>>
Add2(a, b) == LET lo == a[2] + b[2] IN <<(a[1] + b[1] + lo \div M16) % M16, lo % M16>>
Add5(a, b, c, d, e) == Add2(Add2(Add2(Add2(a, b), c), d), e)
Xor2(a, b) == <<a[1] ^^ b[1], a[2] ^^ b[2]>>
And2(a, b) == <<a[1] & b[1], a[2] & b[2]>>
Or2(a, b)  == <<a[1] | b[1], a[2] | b[2]>>
Not2(a)    == <<65535 - a[1], 65535 - a[2]>>
RECURSIVE Pow2(_)
Pow2(n) == IF n = 0 THEN 1 ELSE 2 * Pow2(n - 1)
\* rotate left by n, 0 < n < 32
Rotl(a, n) == LET b == IF n >= 16 THEN <<a[2], a[1]>> ELSE a
                  m == n % 16
              IN IF m = 0 THEN b
                 ELSE LET p == Pow2(m) q == Pow2(16 - m)
                      IN <<((b[1] * p) % M16) + (b[2] \div q), ((b[2] * p) % M16) + (b[1] \div q)>>
Pad(msg) == LET len == Len(msg)
                zeros == (((55 - len) % 64) + 64) % 64
                bits == len * 8
            IN msg \o <<128>> \o [i \in 1..zeros |-> 0] \o
               <<0, 0, 0, 0, (bits \div 16777216) % 256, (bits \div 65536) % 256, (bits \div 256) % 256, bits % 256>>
Word(bs, i) == <<bs[i] * 256 + bs[i+1], bs[i+2] * 256 + bs[i+3]>>
RECURSIVE Sched(_, _)
Sched(w, t) == IF t > 80 THEN w
               ELSE Sched(Append(w, Rotl(Xor2(Xor2(w[t-3], w[t-8]), Xor2(w[t-14], w[t-16])), 1)), t + 1)
F(t, b, c, d) == IF t <= 20 THEN Or2(And2(b, c), And2(Not2(b), d))
                 ELSE IF t <= 40 THEN Xor2(Xor2(b, c), d)
                 ELSE IF t <= 60 THEN Or2(Or2(And2(b, c), And2(b, d)), And2(c, d))
                 ELSE Xor2(Xor2(b, c), d)
K(t) == IF t <= 20 THEN <<23170, 31129>> ELSE IF t <= 40 THEN <<28377, 60321>>
        ELSE IF t <= 60 THEN <<36635, 48348>> ELSE <<51810, 49622>>
RECURSIVE Rounds(_, _, _)
Rounds(w, t, s) == IF t > 80 THEN s
   ELSE LET tmp == Add5(Rotl(s[1], 5), F(t, s[2], s[3], s[4]), s[5], K(t), w[t])
        IN Rounds(w, t + 1, <<tmp, s[1], Rotl(s[2], 30), s[3], s[4]>>)
Block(h, bs, off) == LET w == Sched([i \in 1..16 |-> Word(bs, off + 4 * (i - 1))], 17)
                         s == Rounds(w, 1, h)
                     IN [i \in 1..5 |-> Add2(h[i], s[i])]
RECURSIVE Blocks(_, _, _)
Blocks(h, bs, off) == IF off > Len(bs) THEN h ELSE Blocks(Block(h, bs, off), bs, off + 64)
H0 == <<<<26437, 8961>>, <<61389, 43913>>, <<39098, 56574>>, <<4146, 21622>>, <<50130, 57840>>>>
Sha1(msg) == LET h == Blocks(H0, Pad(msg), 1)
             IN [i \in 1..20 |-> LET wd == h[(i - 1) \div 4 + 1] k == (i - 1) % 4
                                 IN IF k = 0 THEN wd[1] \div 256 ELSE IF k = 1 THEN wd[1] % 256
                                    ELSE IF k = 2 THEN wd[2] \div 256 ELSE wd[2] % 256]
B64C(v) == IF v < 26 THEN 65 + v ELSE IF v < 52 THEN 97 + v - 26 ELSE IF v < 62 THEN 48 + v - 52 ELSE IF v = 62 THEN 43 ELSE 47
RECURSIVE B64(_)
B64(b) == IF Len(b) = 0 THEN <<>>
   ELSE IF Len(b) = 1 THEN <<B64C(b[1] \div 4), B64C((b[1] % 4) * 16), 61, 61>>
   ELSE IF Len(b) = 2 THEN <<B64C(b[1] \div 4), B64C((b[1] % 4) * 16 + b[2] \div 16), B64C((b[2] % 16) * 4), 61>>
   ELSE <<B64C(b[1] \div 4), B64C((b[1] % 4) * 16 + b[2] \div 16), B64C((b[2] % 16) * 4 + b[3] \div 64), B64C(b[3] % 64)>>
        \o B64(SubSeq(b, 4, Len(b)))
GUID == <<50,53,56,69,65,70,65,53,45,69,57,49,52,45,52,55,68,65,45,57,53,67,65,45,67,53,65,66,48,68,67,56,53,66,49,49>>
Accept(key) == B64(Sha1(key \o GUID))
RfcKey == <<100,71,104,108,73,72,78,104,98,88,66,115,90,83,66,117,98,50,53,106,90,81,61,61>>
RfcAcc == <<115,51,112,80,76,77,66,105,84,120,97,81,57,107,89,71,122,122,104,90,82,98,75,43,120,79,111,61>>
=============================================================================
