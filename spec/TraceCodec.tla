----------------------------- MODULE TraceCodec -----------------------------
(* C15 (and the builder half of C06): the library's HTTP builders, parser and chunked codec against the        *)
(* reference semantics of Http.tla.  Every case is one recorded execution of the real code:                     *)
(*  op "parse"   [kind, bytes, view]            parser on a valid message = reference (fields, body, remainder)   *)
(*  op "build"   [kind, x, out, view]           builder output parses (by the REFERENCE) back to x; so does the    *)
(*                                              implementation's own parser (view); framing well-formed           *)
(*  op "rebuild" [kind, bytes, out]             parse then re-serialise: reference-parses to the same message      *)
(*  op "chunks"  [body, k, enc, dec, decdone, decrest]  to_chunks / ChunkParser inverses, reference decoder agrees  *)
(*  op "update"  [kind, out, newbody, encbody, plain, gz]  update_body + build: framing consistent, decoded body   *)
(*                                              (content-encoding undone by the harness with zlib) = new body      *)
(*  op "response" [out, content, encbody, plain, haveplain, gzbad]                a response made by the proxy itself is well formed (C06)           *)
(* A case carries pid, the property its clauses are reported under.                                              *)
EXTENDS ParseView, Json, IOUtils, TLC

Cases == JsonDeserialize(IOEnv.TRACE_FILE)
VARIABLES tid, verdict
vars == <<tid, verdict>>
C == Cases[tid]
T == C.pid

SemHdrs(hs) == {p \in HdrSet(hs) : p[1] # LitContentLength}
FramingWhy(m, out) ==
    IF m.bad THEN T \o " built message has a malformed chunked body"
    ELSE IF ~m.complete THEN T \o " built message is incomplete for the reference parser (body shorter than its framing announces)"
    ELSE IF HdrCount(m.hdrs, LitContentLength) > 1 THEN T \o " built message carries more than one Content-Length field"
    ELSE IF m.framing = "chunked" /\ HasHdr(m.hdrs, LitContentLength) THEN T \o " built message carries both Content-Length and chunked transfer coding"
    ELSE IF HasHdr(m.hdrs, LitContentLength) /\ ~AllDigits(HdrVal(m.hdrs, LitContentLength)) THEN T \o " built message has a non-numeric Content-Length"
    ELSE IF HasHdr(m.hdrs, LitContentLength) /\ DecVal(HdrVal(m.hdrs, LitContentLength)) # Len(m.body) THEN T \o " built message: Content-Length differs from the body length"
    ELSE IF m.end # Len(out) THEN T \o " built message is followed by bytes that belong to no message (body longer than its framing announces)"
    ELSE "ok"

ParseWhy ==
    LET e == IF C.kind = "chunk"
             THEN LET d == Dechunk(C.bytes, 1)
                  IN [Incomplete EXCEPT !.complete = d.ok /\ ~d.bad, !.bad = d.bad, !.body = d.body, !.end = d.next - 1]
             ELSE ParseMsg(C.bytes)
    IN IF ~e.complete \/ e.bad THEN "machinery: corpus message is not a complete valid message for the reference parser"
       ELSE ViewWhy(C.kind, C.bytes, C.view, e, T)

\* x = [parts, hdrs, body]
BuildWhy ==
    LET m == ParseMsg(C.out) x == C.x IN
    IF m.parts # x.parts THEN T \o " built message: start line differs from what was asked for"
    ELSE IF ~(HdrSet(x.hdrs) \subseteq HdrSet(m.hdrs)) THEN T \o " built message: a header field asked for is missing or altered"
    ELSE IF ~(\A p \in HdrSet(m.hdrs) \ HdrSet(x.hdrs) : (\E i \in 1..Len(C.mayadd) : C.mayadd[i] = p[1])) THEN T \o " built message: carries a header field nobody asked for"
    ELSE IF FramingWhy(m, C.out) # "ok" THEN FramingWhy(m, C.out)
    ELSE IF m.body # x.body THEN T \o " built message: body differs from what was asked for"
    ELSE IF C.view.exc # "" THEN T \o " the library's own parser raised " \o C.view.exc \o " on a message built by the library"
    ELSE ViewWhy(C.kind, C.out, C.view, m, T)

RebuildWhy ==
    LET a == ParseMsg(C.bytes) b == ParseMsg(C.out) IN
    IF ~a.complete THEN "machinery: corpus message is not complete for the reference parser"
    ELSE IF C.exc # "" THEN T \o " re-serialising a parsed message raised " \o C.exc
    ELSE IF FramingWhy(b, C.out) # "ok" THEN FramingWhy(b, C.out)
    ELSE IF C.kind = "res" /\ a.parts # b.parts THEN T \o " re-serialised response: status line differs"
    ELSE IF C.kind = "req" /\ (Len(b.parts) # 3 \/ a.parts[1] # b.parts[1] \/ a.parts[3] # b.parts[3]) THEN T \o " re-serialised request: method or version differs"
    ELSE IF C.kind = "req" /\ LET ta == ParseTarget(a.parts[2], a.parts[1] = LitConnect) tb == ParseTarget(b.parts[2], b.parts[1] = LitConnect)
                              IN ~tb.ok \/ (ta.form # "authority" /\ tb.path # ta.path) \/ (ta.form = "authority" /\ (tb.host # ta.host \/ tb.port # ta.port))
         THEN T \o " re-serialised request: request-target differs"
    ELSE IF SemHdrs(a.hdrs) # SemHdrs(b.hdrs) THEN T \o " re-serialised message: header fields differ"
    ELSE IF a.body # b.body THEN T \o " re-serialised message: decoded body differs"
    ELSE IF a.framing = "chunked" /\ b.framing # "chunked" THEN T \o " re-serialised message: chunked message lost its transfer coding"
    ELSE "ok"

ChunksWhy ==
    LET d == Dechunk(C.enc, 1) IN
    IF d.bad \/ ~d.ok THEN T \o " chunked encoder output is not a valid chunked stream for the reference decoder"
    ELSE IF d.next - 1 # Len(C.enc) THEN T \o " chunked encoder output has bytes after the last chunk"
    ELSE IF d.body # C.body THEN T \o " reference decoder does not get the body back from the chunked encoder's output"
    ELSE IF d.n # (Len(C.body) + C.k - 1) \div C.k THEN T \o " chunked encoder did not cut the body into chunks of the requested size"
    ELSE IF C.exc # "" THEN T \o " chunked decoder raised " \o C.exc \o " on the encoder's output"
    ELSE IF ~C.decdone THEN T \o " chunked decoder not complete on the encoder's output"
    ELSE IF C.dec # C.body THEN T \o " chunked decoder is not the inverse of the chunked encoder"
    ELSE IF C.decrest # <<>> THEN T \o " chunked decoder left bytes of the stream unconsumed"
    ELSE "ok"

UpdateWhy ==
    LET m == ParseMsg(C.out) IN
    IF C.exc # "" THEN T \o " update_body / build raised " \o C.exc
    ELSE IF FramingWhy(m, C.out) # "ok" THEN FramingWhy(m, C.out)
    ELSE IF m.body # C.encbody THEN "machinery: harness extracted a different body from the built message than the reference parser"
    ELSE IF (Lower(HdrVal(m.hdrs, LitContentEncoding)) = LitGzip) # C.gz THEN "machinery: harness and reference disagree on the advertised content-encoding"
    ELSE IF C.plain # C.newbody THEN T \o " body after undoing the advertised content-encoding differs from the body that was set"
    ELSE IF C.chunked /\ m.framing # "chunked" THEN T \o " chunked message lost its transfer coding in update_body"
    ELSE "ok"

ResponseWhy ==
    LET w == WellFormedResponse(C.out) m == ParseMsg(C.out) IN
    IF C.exc # "" THEN T \o " response builder raised " \o C.exc
    ELSE IF w # "ok" THEN T \o " proxy-made response is not well formed: " \o w
    ELSE IF m.framing # "none" /\ m.body # C.encbody THEN "machinery: harness extracted a different body from the response than the reference parser"
    ELSE IF m.framing = "none" /\ Rest(C.out, m) # C.encbody THEN "machinery: harness extracted a different close-delimited body than the reference parser"
    ELSE IF m.framing = "none" /\ m.end # Len(C.out) /\ Lower(HdrVal(m.hdrs, LitConnection)) # LitClose THEN T \o " proxy-made response has a body but neither framing nor Connection: close"
    ELSE IF C.gzbad THEN T \o " proxy-made response advertises a content-encoding its body does not have"
    ELSE IF C.haveplain /\ C.plain # C.content THEN T \o " proxy-made response: decoded body differs from the content"
    ELSE "ok"

Why == CASE C.op = "parse" -> ParseWhy [] C.op = "build" -> BuildWhy [] C.op = "rebuild" -> RebuildWhy
         [] C.op = "chunks" -> ChunksWhy [] C.op = "update" -> UpdateWhy [] C.op = "response" -> ResponseWhy
         [] OTHER -> "machinery: unknown op"

TInit == tid \in 1..Len(Cases) /\ verdict = ""
TNext == verdict = "" /\ verdict' = Why /\ UNCHANGED tid
TSpec == TInit /\ [][TNext]_vars
Report == verdict \in {"", "ok"} \/ PrintT("REJECTED|" \o ToString(C.id) \o "|" \o verdict)
=============================================================================
