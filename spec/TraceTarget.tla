----------------------------- MODULE TraceTarget -----------------------------
(* C14: the proxy connects to exactly the host and port the request-target names.                                   *)
(* Reference: spec/Target.tla (independent of proxy/http/url.py).  A case is one request-target put through          *)
(*  (a) the REAL HttpParser:  [pexc, phost, pport, ppath]  (what the proxy derives), and                             *)
(*  (b) the REAL handler + HttpProxyPlugin on SimNet: every outbound connection attempt as it reaches the socket       *)
(*      layer (host string, port, literal-or-name dispatch), what the client got, whether it was closed.               *)
(* Case: [id, target, connect (method is CONNECT), pexc, phost, pport, ppath, conns: Seq of [host, port], cgot, ceof] *)
EXTENDS Target, Json, IOUtils, TLC
Cases == JsonDeserialize(IOEnv.TRACE_FILE)
VARIABLES tid, verdict
vars == <<tid, verdict>>
C == Cases[tid]
Bracketed(h) == <<91>> \o h \o <<93>>
Why ==
    LET t == ParseTarget(C.target, C.connect) r == ParseMsg(C.cgot) IN
    IF t.ok /\ t.form # "origin" THEN
         IF C.pexc # "" THEN "C14 a valid request-target was rejected by the parser (" \o C.pexc \o ")"
         ELSE IF ~(C.phost = t.host \/ (t.v6 /\ C.phost = Bracketed(t.host))) THEN "C14 host derived from the request-target differs from the reference URL parser"
         ELSE IF C.pport # t.port THEN "C14 port derived from the request-target differs from the reference (default 80, 443 for CONNECT)"
         ELSE IF t.form = "absolute" /\ ~(C.ppath = t.path \/ (C.ppath = <<>> /\ t.path = <<47>>)) THEN "C14 path derived from the request-target differs from the reference"
         ELSE IF t.port = 0 THEN (IF Len(C.conns) # 0 THEN "C14 connection opened for a target naming port 0" ELSE "ok")
         ELSE IF Len(C.conns) = 0 THEN "C14 no outbound connection for a valid request-target"
         ELSE IF Len(C.conns) > 1 THEN "C14 more than one outbound connection for one request"
         ELSE IF C.conns[1].host # t.host THEN
              (IF t.v6 /\ C.conns[1].host = Bracketed(t.host) THEN "C14 IPv6 literal handed to the socket layer WITH its brackets"
               ELSE "C14 outbound connection opened to a host the request-target does not name")
         ELSE IF C.conns[1].port # t.port THEN "C14 outbound connection opened to a port the request-target does not name"
         ELSE "ok"
    ELSE IF t.ok THEN "ok"                                     \* origin-form: web server role, no outbound connection expected here
    ELSE \* invalid target: rejected as a protocol error, never mis-routed
         IF Len(C.conns) # 0 THEN "C14 an outbound connection was opened for a request-target that cannot be interpreted"
         ELSE IF C.cgot = <<>> /\ ~C.ceof THEN "C14 an uninterpretable request-target was neither answered with an error nor closed"
         ELSE IF C.cgot # <<>> /\ Len(r.parts) >= 2 /\ r.parts[2][1] = 50 THEN "C14 an uninterpretable request-target was answered with a success status"
         ELSE "ok"
TInit == tid \in 1..Len(Cases) /\ verdict = ""
TNext == verdict = "" /\ verdict' = Why /\ UNCHANGED tid
TSpec == TInit /\ [][TNext]_vars
Report == verdict \in {"", "ok"} \/ PrintT("REJECTED|" \o ToString(C.id) \o "|" \o verdict)
=============================================================================
