----------------------------- MODULE TraceStatic -----------------------------
(* C13: the static file server never serves anything outside its directory; what it serves is the file the path names. *)
(* Case: [id, path (request-target bytes), status (bytes), plain (body after undoing the advertised content-encoding,   *)
(*        by the harness with zlib), undecodable, tree: Seq of [segs, content] (regular files INSIDE the root, by their   *)
(*        normalised segment list), outside: Seq of contents of the files placed just outside the root]                  *)
EXTENDS StaticPath, Json, IOUtils, TLC
Cases == JsonDeserialize(IOEnv.TRACE_FILE)
VARIABLES tid, verdict
vars == <<tid, verdict>>
C == Cases[tid]
L200 == <<50, 48, 48>>
L404 == <<52, 48, 52>>
FileAt(stack) == LET S == {k \in 1..Len(C.tree) : C.tree[k].segs = stack} IN IF S = {} THEN <<"none">> ELSE <<"file", C.tree[MinOf(S)].content>>
Why ==
    LET r == Resolve(C.path) f == FileAt(r.stack) IN
    IF C.status # L200 /\ C.status # L404 THEN "C13 static request answered with neither 200 nor 404"
    ELSE IF ~r.inside THEN (IF C.status = L200 THEN "C13 a path that leads out of the static directory was answered with file content" ELSE "ok")
    ELSE IF C.status = L200 THEN
         IF C.undecodable THEN "C13 served content cannot be decoded with the content-encoding the response advertises"
         ELSE IF \E k \in 1..Len(C.outside) : C.plain = C.outside[k] /\ (f[1] = "none" \/ f[2] # C.plain)
              THEN "C13 content of a file OUTSIDE the static directory was served"
         ELSE IF f[1] = "none" THEN "C13 file content served for a path that names no file in the static directory"
         ELSE IF C.plain # f[2] THEN "C13 served content differs from the file the path names (after undoing the content-encoding; the query must not matter)"
         ELSE "ok"
    ELSE "ok"       \* 404 for an inside path is always allowed by the property (it only says when content MAY be served)
\* liveness of the server is also wanted: a plain existing file is served
PlainWhy == IF C.mustserve /\ C.status # L200 THEN "C13 an existing file named by a plain path was not served" ELSE "ok"
TInit == tid \in 1..Len(Cases) /\ verdict = ""
TNext == verdict = "" /\ verdict' = (IF Why # "ok" THEN Why ELSE PlainWhy) /\ UNCHANGED tid
TSpec == TInit /\ [][TNext]_vars
Report == verdict \in {"", "ok"} \/ PrintT("REJECTED|" \o ToString(C.id) \o "|" \o verdict)
=============================================================================
