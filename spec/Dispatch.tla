------------------------------ MODULE Dispatch ------------------------------
(* C17, the hand-off that differs between the execution modes: in remote-threadless mode an accepted connection is passed   *)
(* to a worker PROCESS over that worker's pipe as TWO messages - the peer address, then the descriptor (send_handle) - by     *)
(* delegate_work_to_pool (proxy/core/work/delegate.py), possibly from several acceptor threads / processes at once; the      *)
(* worker reads them strictly as a pair (RemoteFdExecutor.receive_from_work_queue).  The per-worker lock makes the pair        *)
(* atomic.  LOCKED = FALSE shows what happens otherwise (kept as a vacuity guard: PairsMatch must then FAIL).                 *)
(* In the other two modes the accepted socket object is handed over in one piece (queue.put of (conn, addr) / Thread(conn)).   *)
EXTENDS Naturals, Sequences, FiniteSets, TLC
CONSTANTS Senders, LOCKED
VARIABLES pipe,     \* Seq of <<"addr"|"fd", sender>>
          pc,       \* [Senders -> "idle" | "locked" | "addr" | "fd" | "done"]
          lock,     \* holder or "free"
          got       \* Seq of <<addr-of, fd-of>> pairs as the worker read them
vars == <<pipe, pc, lock, got>>
Init == pipe = <<>> /\ pc = [s \in Senders |-> "idle"] /\ lock = "free" /\ got = <<>>
Acquire(s) == pc[s] = "idle" /\ (LOCKED => lock = "free") /\ pc' = [pc EXCEPT ![s] = "locked"] /\ lock' = (IF LOCKED THEN s ELSE lock) /\ UNCHANGED <<pipe, got>>
SendAddr(s) == pc[s] = "locked" /\ pipe' = Append(pipe, <<"addr", s>>) /\ pc' = [pc EXCEPT ![s] = "addr"] /\ UNCHANGED <<lock, got>>
SendFd(s)   == pc[s] = "addr" /\ pipe' = Append(pipe, <<"fd", s>>) /\ pc' = [pc EXCEPT ![s] = "fd"] /\ UNCHANGED <<lock, got>>
Release(s)  == pc[s] = "fd" /\ pc' = [pc EXCEPT ![s] = "done"] /\ lock' = (IF LOCKED THEN "free" ELSE lock) /\ UNCHANGED <<pipe, got>>
\* the worker takes two messages off the pipe and treats them as (address, descriptor)
Receive == Len(pipe) >= 2 /\ got' = Append(got, <<pipe[1], pipe[2]>>) /\ pipe' = SubSeq(pipe, 3, Len(pipe)) /\ UNCHANGED <<pc, lock>>
Next == (\E s \in Senders : Acquire(s) \/ SendAddr(s) \/ SendFd(s) \/ Release(s)) \/ Receive
Spec == Init /\ [][Next]_vars /\ WF_vars(Next)
\* every work the worker starts is built from an address message and the descriptor message of the SAME connection
PairsMatch == \A k \in 1..Len(got) : got[k][1][1] = "addr" /\ got[k][2][1] = "fd" /\ got[k][1][2] = got[k][2][2]
AllHandedOver == <>(Len(got) = Cardinality(Senders))
=============================================================================
