------------------------------ MODULE Persist ------------------------------
(* C04: design model of a persistent (keep-alive / pipelined) client connection through the proxy, in any role.    *)
(* The client's script is a sequence of requests, request k naming origin (or route) script[k]; its bytes are cut    *)
(* into UNITS (2 per request: head, rest) and the units are packed into TCP segments in any way; origins answer      *)
(* at their own pace.  The intended design: the proxy assembles requests from whatever arrives, dispatches each     *)
(* to the origin it names, and relays responses to the client in REQUEST order (head-of-line), one per request.      *)
(* TLC explores every packing and every interleaving of arrivals, dispatches, origin answers and relays.             *)
EXTENDS PersistDefs, FiniteSets, TLC
CONSTANTS NREQ, Origins,
          Polite      \* generation only: the client starts request k+1 after response k arrived, segments never span requests

VARIABLES script,     \* [1..n -> Origins]
          sent,       \* units the client has written so far (0..2n)
          wire,       \* units in flight client -> proxy (the current segment grows until it is delivered)
          arrived,    \* units the proxy has received
          parsed,     \* requests the proxy has assembled and dispatched (count)
          inbox,      \* [Origins -> Seq of request numbers received]
          answered,   \* [Origins -> number of its requests answered]
          held,       \* responses received by the proxy, not yet relayed: set of request numbers
          got         \* what the client has received: Seq of <<origin, request number>>
vars == <<script, sent, wire, arrived, parsed, inbox, answered, held, got>>
N == Len(script)

Init == /\ script \in UNION {[1..n -> Origins] : n \in 1..NREQ}
        /\ sent = 0 /\ wire = 0 /\ arrived = 0 /\ parsed = 0
        /\ inbox = [o \in Origins |-> <<>>] /\ answered = [o \in Origins |-> 0] /\ held = {} /\ got = <<>>

\* the client appends one more unit to the segment being written (several units, even of different requests, may share a segment)
Write == sent < 2 * N /\ (Polite => (sent % 2 = 1 \/ (wire = 0 /\ Len(got) = sent \div 2)))
         /\ sent' = sent + 1 /\ wire' = wire + 1
         /\ UNCHANGED <<script, arrived, parsed, inbox, answered, held, got>>
\* the segment is delivered: the proxy's recv returns all of it
Deliver == wire > 0 /\ arrived' = arrived + wire /\ wire' = 0
           /\ UNCHANGED <<script, sent, parsed, inbox, answered, held, got>>
\* the proxy has a complete next request: dispatch it to the origin it names
Dispatch == /\ parsed < N /\ arrived >= 2 * (parsed + 1)
            /\ parsed' = parsed + 1
            /\ inbox' = [inbox EXCEPT ![script[parsed + 1]] = Append(@, parsed + 1)]
            /\ UNCHANGED <<script, sent, wire, arrived, answered, held, got>>
\* an origin answers its oldest unanswered request; the response reaches the proxy
Answer(o) == /\ answered[o] < Len(inbox[o])
             /\ answered' = [answered EXCEPT ![o] = @ + 1]
             /\ held' = held \cup {inbox[o][answered[o] + 1]}
             /\ UNCHANGED <<script, sent, wire, arrived, parsed, inbox, got>>
\* the proxy relays the response of the next request in request order
Relay == /\ (Len(got) + 1) \in held
         /\ got' = Append(got, <<script[Len(got) + 1], Len(got) + 1>>)
         /\ held' = held \ {Len(got) + 1}
         /\ UNCHANGED <<script, sent, wire, arrived, parsed, inbox, answered>>
Next == Write \/ Deliver \/ Dispatch \/ (\E o \in Origins : Answer(o)) \/ Relay
Spec == Init /\ [][Next]_vars
FairSpec == Spec /\ WF_vars(Next)

OneResponsePerRequestInOrder == IsPrefix(got, Expected(script))
RightOrigin == \A o \in Origins : IsPrefix(inbox[o], ExpectedInbox(script, o))
AllAnswered == <>(got = Expected(script))
=============================================================================
