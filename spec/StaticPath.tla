----------------------------- MODULE StaticPath -----------------------------
(* C13: which file (if any) a request path names under the static root.  Reference semantics, independent of the       *)
(* implementation: strip the query at the FIRST "?", split at "/", resolve dot-segments with a stack:                   *)
(*   "" and "." are skipped, ".." pops; popping an empty stack means the path leads OUT of the root.                     *)
(* Percent-sequences are NOT decoded (the server does not decode them): "%2e%2e" is an ordinary name.                   *)
EXTENDS Http
SLASH == 47
QM == 63
DOT == 46
StripQuery(p) == LET q == FindByte(p, QM, 1, Len(p)) IN IF q = 0 THEN p ELSE Sub(p, 1, q - 1)
\* split at "/" -> sequence of segments (empty segments included)
RECURSIVE SplitSlash(_)
SplitSlash(p) == LET s == FindByte(p, SLASH, 1, Len(p)) IN
                 IF s = 0 THEN <<p>> ELSE <<Sub(p, 1, s - 1)>> \o SplitSlash(Sub(p, s + 1, Len(p)))
\* [inside, stack]
RECURSIVE Norm(_, _)
Norm(segs, st) ==
    IF segs = <<>> THEN [inside |-> TRUE, stack |-> st]
    ELSE LET h == Head(segs) IN
         IF h = <<>> \/ h = <<DOT>> THEN Norm(Tail(segs), st)
         ELSE IF h = <<DOT, DOT>> THEN (IF st = <<>> THEN [inside |-> FALSE, stack |-> <<>>] ELSE Norm(Tail(segs), Sub(st, 1, Len(st) - 1)))
         ELSE Norm(Tail(segs), Append(st, h))
\* As the OS resolves root + path, an intermediate ".." is only harmless if it never climbs above the root at ANY point
Resolve(path) == Norm(SplitSlash(StripQuery(path)), <<>>)
TrailingSlash(path) == LET p == StripQuery(path) IN p # <<>> /\ p[Len(p)] = SLASH
=============================================================================
