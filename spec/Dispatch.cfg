SPECIFICATION Spec
INVARIANT PairsMatch
PROPERTY AllHandedOver
CHECK_DEADLOCK FALSE
