----------------------------- MODULE TraceInput -----------------------------
(* C06, handler half: for ANY byte sequence a client sends, the proxy keeps waiting (input incomplete), serves,      *)
(* or sends a well-formed error response and closes.  A case is one recorded connection through the REAL handler:    *)
(*   [id, input, cgot, ceof, nconnect, served]   served = an upstream connection was made for it                      *)
(* Everything the client received is parsed with the reference parser: it must be a sequence of well-formed           *)
(* responses with nothing partial at the end; a response that announces "Connection: close" must be the last one and  *)
(* must be followed by end-of-stream; a complete well-formed request must not be left without any reaction.           *)
EXTENDS Http, Json, IOUtils, TLC
Cases == JsonDeserialize(IOEnv.TRACE_FILE)
VARIABLES tid, verdict
vars == <<tid, verdict>>
C == Cases[tid]

\* walk the responses in b: "ok" or the first problem; n bounds the recursion
RECURSIVE Walk(_, _)
Walk(b, n) ==
    IF b = <<>> THEN "ok"
    ELSE IF n = 0 THEN "machinery: more responses than expected"
    ELSE LET m == ParseMsg(b) IN
         IF ~HeadOk(b) THEN "C06 the client was sent bytes that are not a well-formed response head (partial or malformed response)"
         ELSE IF ~StatusLineOk(m.parts) THEN "C06 malformed status line in a response sent to the client"
         ELSE IF m.bad THEN "C06 malformed chunked body in a response sent to the client"
         ELSE IF HdrCount(m.hdrs, LitContentLength) > 1 THEN "C06 response with more than one Content-Length"
         ELSE IF m.framing = "chunked" /\ HasHdr(m.hdrs, LitContentLength) THEN "C06 response with both Content-Length and chunked coding"
         ELSE IF ~m.complete THEN "C06 partial response: body shorter than its framing announces" \o (IF C.ceof THEN " (then end-of-stream)" ELSE "")
         ELSE LET closes == Lower(HdrVal(m.hdrs, LitConnection)) = LitClose
                  rest == Rest(b, m)
              IN IF m.framing = "none" /\ ~HasHdr(m.hdrs, LitContentLength) /\ rest # <<>>
                 THEN (IF closes \/ C.ceof THEN "ok"                       \* close-delimited body, legitimate when the stream ends
                       ELSE "C06 response without framing followed by more bytes on a connection that stays open")
                 ELSE IF closes /\ rest # <<>> THEN "C06 bytes sent after a response that announced Connection: close"
                 ELSE IF closes /\ ~C.ceof THEN "C06 connection kept open after a response that announced Connection: close"
                 ELSE Walk(rest, n - 1)

\* the request head is syntactically clean, so that "complete" is not a matter of how malformed input is read:
\* every header line is name ":" value with a token name, no stray CR / LF inside a line, framing headers at most once
CleanRequest(b, m) ==
    /\ HeadOk(b)
    /\ \A i \in 1..m.end : (b[i] = CR => (i < Len(b) /\ b[i + 1] = LF)) /\ (b[i] = LF => (i > 1 /\ b[i - 1] = CR))
    /\ HdrCount(m.hdrs, LitContentLength) <= 1 /\ HdrCount(m.hdrs, LitTransferEncoding) <= 1
    /\ ~(HasHdr(m.hdrs, LitContentLength) /\ HasHdr(m.hdrs, LitTransferEncoding))
    /\ (HasHdr(m.hdrs, LitContentLength) => AllDigits(HdrVal(m.hdrs, LitContentLength)))
    /\ (HasHdr(m.hdrs, LitTransferEncoding) => Lower(HdrVal(m.hdrs, LitTransferEncoding)) = LitChunked)
    /\ \A i \in 1..Len(m.parts) : \A j \in 1..Len(m.parts[i]) : m.parts[i][j] > 32 /\ m.parts[i][j] < 127

Why ==
    LET req == ParseMsg(C.input)
        first == ParseMsg(C.cgot)
        \* an established tunnel: after the acknowledgement the stream is opaque
        w == IF C.tunnel /\ C.nconnect > 0 /\ first.complete /\ first.framing = "none" /\ HeadOk(C.cgot) /\ StatusLineOk(first.parts)
             THEN "ok" ELSE Walk(C.cgot, 8)
    IN
    IF w # "ok" THEN w
    ELSE IF C.loopdied THEN "C06 the input made the worker fail instead of answering or closing"
    ELSE IF req.complete /\ Len(req.parts) = 3 /\ CleanRequest(C.input, req) /\ C.cgot = <<>> /\ ~C.ceof /\ C.nconnect = 0 /\ ~C.tunnel
         THEN (IF req.framing = "none" /\ req.end # Len(C.input)
               THEN "C06 a complete request without body framing that is followed by further bytes got neither service, nor an error response, nor a close"
               ELSE "C06 a complete request got neither service, nor an error response, nor a close")
    ELSE "ok"
TInit == tid \in 1..Len(Cases) /\ verdict = ""
TNext == verdict = "" /\ verdict' = Why /\ UNCHANGED tid
TSpec == TInit /\ [][TNext]_vars
Report == verdict \in {"", "ok"} \/ PrintT("REJECTED|" \o ToString(C.id) \o "|" \o verdict)
=============================================================================
