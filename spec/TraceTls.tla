------------------------------- MODULE TraceTls -------------------------------
(* C11, code -> spec: facts recorded from REAL conversations (real proxy process with interception flags, real TLS origins     *)
(* with the four certificate situations, a client that inspects the certificate it is presented and then talks HTTP inside      *)
(* TLS) are judged against the outcome Tls.tla demands for the case.                                                           *)
(* Case: [id, cert, insecure, optout, hostkind, tlsok (client handshake completed), leafchains (presented certificate chains     *)
(*   to the interception CA - openssl verify), leafnames (it names the CONNECT host - openssl -checkhost / -checkip),            *)
(*   isorigincert (it IS the origin's own certificate), req, resp (what the client sent / the origin answers), ogot (plaintext    *)
(*   the origin received), cgot (plaintext the client received)]                                                               *)
EXTENDS Http, Json, IOUtils, TLC
Cases == JsonDeserialize(IOEnv.TRACE_FILE)
VARIABLES tid, verdict
vars == <<tid, verdict>>
C == Cases[tid]
Outcome == IF C.optout THEN "opaque" ELSE IF C.insecure \/ C.cert = "trusted" THEN "intercepted" ELSE "refused"
SemEq(a, b) == LET x == ParseMsg(a) y == ParseMsg(b) IN
               x.complete /\ y.complete /\ x.parts = y.parts /\ x.body = y.body
               /\ {p \in HdrSet(x.hdrs) : p[1] # LitVia} = {p \in HdrSet(y.hdrs) : p[1] # LitVia}
Why ==
    IF Outcome = "refused" THEN
         (IF C.ogot # <<>> THEN "C11 application data reached an origin whose certificate failed verification (" \o C.cert \o ")"
          ELSE IF C.cgot # <<>> THEN "C11 application data from an unverified origin reached the client (" \o C.cert \o ")"
          ELSE "ok")
    ELSE IF Outcome = "opaque" THEN
         (IF ~C.tlsok THEN "C11 opted-out connection: the end-to-end TLS session through the tunnel failed"
          ELSE IF ~C.isorigincert THEN "C11 opted-out connection was intercepted: the client was not presented the origin's own certificate"
          ELSE IF C.ogot # C.req THEN "C11 opted-out tunnel is not opaque: the origin did not receive the client's bytes unchanged"
          ELSE IF C.cgot # C.resp THEN "C11 opted-out tunnel is not opaque: the client did not receive the origin's bytes unchanged"
          ELSE "ok")
    ELSE IF ~C.tlsok THEN "C11 interception: the TLS handshake with the client failed"
    ELSE IF C.isorigincert THEN "C11 interception enabled but the connection was tunnelled (client saw the origin's certificate)"
    ELSE IF ~C.leafchains THEN "C11 the certificate presented to the client does not chain to the configured CA"
    ELSE IF ~C.leafnames THEN "C11 the certificate presented to the client does not name the CONNECT host (" \o C.hostkind \o ")"
    ELSE IF ~SemEq(C.ogot, C.req) THEN "C11 the request sent inside TLS did not reach the origin semantically intact"
    ELSE IF C.cgot # C.resp THEN "C11 the origin's response did not return intact"
    ELSE "ok"
TInit == tid \in 1..Len(Cases) /\ verdict = ""
TNext == verdict = "" /\ verdict' = Why /\ UNCHANGED tid
TSpec == TInit /\ [][TNext]_vars
Report == verdict \in {"", "ok"} \/ PrintT("REJECTED|" \o ToString(C.id) \o "|" \o verdict)
=============================================================================
