SPECIFICATION TSpec
CONSTANTS
 K = 3
 FIX = TRUE
CONSTRAINT Report
INVARIANT NoResidue
CHECK_DEADLOCK FALSE
