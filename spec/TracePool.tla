------------------------------- MODULE TracePool -------------------------------
(* Behaviours of Pool.tla executed step by step on the REAL UpstreamConnectionPool (SimNet sockets); after every step the      *)
(* pool's tables, the borrowed / reusable state of every connection and the set of closed sockets must be the model's.          *)
(* Case: [id, steps: Seq of [act, a, c, obs: [known, inuse, closed]]]   (connections are numbered in creation order)            *)
EXTENDS Pool, Sequences, Json, IOUtils
Cases == JsonDeserialize(IOEnv.TRACE_FILE)
VARIABLES tid, l, verdict
tvars == <<vars, tid, l, verdict>>
C == Cases[tid]
St == C.steps[l]
SetOf(q) == {q[k] : k \in 1..Len(q)}
TInit == tid \in 1..Len(Cases) /\ l = 1 /\ verdict = "ok" /\ Init
ObsWhy(o) ==
    IF o.exc # "" THEN "C10 (connection pool) " \o St.act \o " raised " \o o.exc
    ELSE IF SetOf(o.known) # known' THEN "C10 (connection pool) after " \o St.act \o " the pool's tables hold connections " \o ToString(SetOf(o.known)) \o ", expected " \o ToString(known')
    ELSE IF SetOf(o.inuse) # {c \in known' : pool'[c].st = "inuse"} THEN "C10 (connection pool) after " \o St.act \o " the borrowed connections are " \o ToString(SetOf(o.inuse)) \o ", expected " \o ToString({c \in known' : pool'[c].st = "inuse"})
    ELSE IF SetOf(o.closed) # closed' THEN "C10 (connection pool) after " \o St.act \o " the closed sockets are " \o ToString(SetOf(o.closed)) \o ", expected " \o ToString(closed')
    ELSE "ok"
Act == CASE St.act = "Acquire" -> Acquire(St.a) /\ pool'[St.c].st = "inuse" /\ St.c \in known'
         [] St.act = "Retain" -> Retain(St.c)
         [] St.act = "Release" -> Release(St.c)
         [] St.act = "PeerEnds" -> PeerEnds(St.c)
         [] St.act = "Sweep" -> Sweep
TNext == /\ verdict = "ok" /\ l <= Len(C.steps)
         /\ IF ENABLED Act
            THEN Act /\ verdict' = ObsWhy(St.obs)
            ELSE /\ verdict' = "C10 (connection pool) " \o St.act \o " of connection " \o ToString(St.c) \o " is not a step the pool discipline allows (e.g. a connection handed out while it is in use)"
                 /\ UNCHANGED vars
         /\ l' = l + 1 /\ UNCHANGED tid
TSpec == TInit /\ [][TNext]_tvars
Report == verdict = "ok" \/ PrintT("REJECTED|" \o ToString(C.id) \o "|" \o ToString(l - 1) \o "|" \o verdict)
=============================================================================
