--------------------------- MODULE TraceLifecycle ---------------------------
(* C19, code -> spec: facts observed around Proxy.setup() / Proxy.shutdown() of the REAL proxy (embedded Proxy object,       *)
(* real listeners and acceptor processes) for one configuration, judged against what Lifecycle.tla demands Up and Down.       *)
(* Observations are taken from OUTSIDE the proxy's own bookkeeping: the process' listening sockets are read from /proc,       *)
(* endpoints are probed with connect(), children counted, files looked at.                                                    *)
(* Case: [id, cfg: [hosts, port, ports, unix, files], up: [listening, accepts, unixaccepts, primary, ports, portfile,         *)
(*        pidfileok], down: [listening, accepts, unixaccepts, children, pidfile, portfile, unixpath]]                          *)
EXTENDS Naturals, Sequences, FiniteSets, Json, IOUtils, TLC
Cases == JsonDeserialize(IOEnv.TRACE_FILE)
VARIABLES tid, verdict
vars == <<tid, verdict>>
C == Cases[tid]
SetOf(q) == {q[k] : k \in 1..Len(q)}
Why ==
    LET c == C.cfg u == C.up d == C.down
        H == SetOf(c.hosts)
        fixed == (IF c.unix \/ c.port = 0 THEN {} ELSE {c.port}) \cup {p \in SetOf(c.ports) : p # 0}
        nzero == (IF ~c.unix /\ c.port = 0 THEN 1 ELSE 0) + Cardinality({k \in 1..Len(c.ports) : c.ports[k] = 0})
        L == SetOf(u.listening)
        P == {e[2] : e \in L}
        rep == (IF c.unix THEN {} ELSE {u.primary}) \cup SetOf(u.ports)
    IN
    IF u.exc # "" THEN "C19 start-up failed for a valid configuration: " \o u.exc
    ELSE IF \E h \in H, p \in fixed : <<h, p>> \notin L THEN "C19 a configured endpoint is not listening after start-up"
    ELSE IF Cardinality(P) # Cardinality(fixed) + nzero THEN "C19 the number of bound TCP ports differs from the number configured: bound " \o ToString(P)
    ELSE IF L # {<<h, p>> : h \in H, p \in P} THEN "C19 the listening endpoints are not exactly hosts x ports: " \o ToString(L)
    ELSE IF SetOf(u.accepts) # L THEN "C19 a listening endpoint does not accept connections after start-up"
    ELSE IF c.unix /\ ~u.unixaccepts THEN "C19 the Unix socket does not accept connections after start-up"
    ELSE IF ~c.unix /\ u.primary \notin P THEN "C19 the primary port reported by the embedding API (" \o ToString(u.primary) \o ") is not a bound port " \o ToString(P)
    ELSE IF ~c.unix /\ c.port # 0 /\ u.primary # c.port THEN "C19 the primary port reported by the embedding API (" \o ToString(u.primary) \o ") is not the configured --port " \o ToString(c.port)
    ELSE IF rep # P THEN "C19 the ports reported by the embedding API " \o ToString(rep) \o " are not exactly the bound ports " \o ToString(P)
    ELSE IF ~c.unix /\ u.primary \in SetOf(u.ports) THEN "C19 the primary port is also listed among the additional ports"
    ELSE IF c.files /\ ~u.pidfileok THEN "C19 the pid file is missing or does not hold the process id"
    ELSE IF c.files /\ SetOf(u.portfile) # P THEN "C19 the port file " \o ToString(u.portfile) \o " does not name exactly the bound ports " \o ToString(P)
    ELSE IF c.files /\ ~c.unix /\ (u.portfile = <<>> \/ u.portfile[1] # u.primary) THEN "C19 the port file does not list the primary port first"
    ELSE IF c.files /\ Len(u.portfile) # Cardinality(P) THEN "C19 the port file lists a port twice"
    \* ---- after shutdown ----
    ELSE IF d.exc # "" THEN "C19 shutdown failed: " \o d.exc
    ELSE IF SetOf(d.accepts) # {} THEN "C19 an endpoint still accepts connections after shutdown: " \o ToString(SetOf(d.accepts))
    ELSE IF SetOf(d.listening) \cap L # {} THEN "C19 a listening socket of the proxy is still open after shutdown: " \o ToString(SetOf(d.listening) \cap L)
    ELSE IF d.unixaccepts THEN "C19 the Unix socket still accepts connections after shutdown"
    ELSE IF d.children # 0 THEN "C19 child processes remain after shutdown"
    ELSE IF d.pidfile THEN "C19 the pid file is still there after shutdown"
    ELSE IF d.portfile THEN "C19 the port file is still there after shutdown"
    ELSE "ok"
TInit == tid \in 1..Len(Cases) /\ verdict = ""
TNext == verdict = "" /\ verdict' = Why /\ UNCHANGED tid
TSpec == TInit /\ [][TNext]_vars
Report == verdict \in {"", "ok"} \/ PrintT("REJECTED|" \o ToString(C.id) \o "|" \o verdict)
=============================================================================
