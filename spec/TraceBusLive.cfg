SPECIFICATION TSpec
CONSTRAINT Report
INVARIANT ExactlyOnceInOrder
CHECK_DEADLOCK FALSE
