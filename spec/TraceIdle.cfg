SPECIFICATION TSpec
CONSTRAINT Report
INVARIANT NeverWithPending
CHECK_DEADLOCK FALSE
