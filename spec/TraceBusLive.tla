---------------------------- MODULE TraceBusLive ----------------------------
(* C18, code -> spec, the LIVE event bus: a real EventManager (dispatcher THREAD consuming a multiprocessing.Queue) and real *)
(* EventSubscriber objects (relay THREADS calling a callback).  One harness thread issues setup() / shutdown() / publish(),  *)
(* so the queue order is the issue order; between operations the harness waits for nothing.  The recorded operations are    *)
(* replayed through the actions of EventBus.tla with the dispatcher taking its steps eagerly; per subscription (epoch) the   *)
(* events the model delivers on the channel must be exactly what the subscriber's callback was called with, in that order.  *)
(* Case: [id, ops: Seq of [act, s], got: [a, b, c: Seq of Seq of Nat] (callback arguments per epoch), alive]                 *)
EXTENDS EventBus, Json, IOUtils
Cases == JsonDeserialize(IOEnv.TRACE_FILE)
VARIABLES tid, l, verdict, done, nsub
tvars == <<vars, tid, l, verdict, done, nsub>>
C == Cases[tid]
TInit == /\ tid \in 1..Len(Cases) /\ l = 1 /\ verdict = "ok" /\ Init
         /\ done = [s \in Subs |-> <<>>] /\ nsub = [s \in Subs |-> 0]
Epochs(s) == IF nsub[s] = 0 THEN done[s] ELSE Append(done[s], Nums(chan[s]))
Why ==
    IF ~C.alive THEN "C18 the dispatcher thread ended: " \o C.err
    ELSE IF \E s \in Subs : Epochs(s) # C.got[s]
         THEN LET s == CHOOSE s \in Subs : Epochs(s) # C.got[s] IN
              "C18 subscriber " \o s \o ": callback was called with " \o ToString(C.got[s]) \o " (one sequence per subscription), events published while subscribed were "
                \o ToString(Epochs(s))
    ELSE "ok"
TStepOp == /\ queue = <<>> /\ l <= Len(C.ops)
           /\ LET o == C.ops[l] IN
              CASE o.act = "Subscribe" -> /\ Subscribe(o.s)
                                          /\ done' = [done EXCEPT ![o.s] = Epochs(o.s)]
                                          /\ nsub' = [nsub EXCEPT ![o.s] = @ + 1]
                [] o.act = "Unsubscribe" -> Unsubscribe(o.s) /\ UNCHANGED <<done, nsub>>
                [] o.act = "Publish" -> Publish /\ UNCHANGED <<done, nsub>>
           /\ l' = l + 1 /\ UNCHANGED <<tid, verdict>>
TStepDispatch == /\ queue # <<>> /\ Dispatch /\ UNCHANGED <<tid, l, verdict, done, nsub>>
TFinish == /\ queue = <<>> /\ l = Len(C.ops) + 1 /\ verdict = "ok"
           /\ verdict' = Why /\ l' = l + 1 /\ UNCHANGED <<vars, tid, done, nsub>>
TNext == TStepOp \/ TStepDispatch \/ TFinish
TSpec == TInit /\ [][TNext]_tvars
\* a replay that gets stuck before the end means the harness issued an operation the model does not allow: machinery
Stuck == l <= Len(C.ops) /\ queue = <<>> /\ ~ENABLED TStepOp
Report == /\ (verdict = "ok" \/ PrintT("REJECTED|" \o ToString(C.id) \o "|" \o verdict))
          /\ (~Stuck \/ PrintT("REJECTED|" \o ToString(C.id) \o "|machinery: operation " \o ToString(l) \o " is not enabled in EventBus"))
=============================================================================
