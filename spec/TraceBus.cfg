SPECIFICATION TSpec
CONSTRAINT Report
INVARIANT ExactlyOnceInOrder
INVARIANT NothingLost
CHECK_DEADLOCK FALSE
