----------------------------- MODULE TraceAuth -----------------------------
(* C08: with basic proxy authentication configured, a connection whose first proxy request does not carry        *)
(* exactly the configured credentials gets a 407 and is closed; nothing is connected, forwarded or shown to     *)
(* later plugins.  The right credentials are served and never forwarded.                                        *)
(* Authorized is defined HERE from the raw configured "user:password" (base64 by Sha1!B64) and the reference      *)
(* parse of the client's bytes - independently of proxy/http/proxy/auth.py and of flag processing.               *)
(* Case: [id, cred, req, cgot, ceof, nconnect, ugot, hooks, userplugin]                                          *)
EXTENDS Target, Json, IOUtils, TLC
S1 == INSTANCE Sha1

Cases == JsonDeserialize(IOEnv.TRACE_FILE)
VARIABLES tid, verdict
vars == <<tid, verdict>>
C == Cases[tid]

RECURSIVE SplitSP(_)
SplitSP(v) == LET t == LET S == {i \in 1..Len(v) : v[i] # SP} IN IF S = {} THEN <<>> ELSE Sub(v, MinOf(S), Len(v)) IN
              IF t = <<>> THEN <<>>
              ELSE LET e == FindByte(t, SP, 1, Len(t)) IN
                   IF e = 0 THEN <<t>> ELSE <<Sub(t, 1, e - 1)>> \o SplitSP(Sub(t, e + 1, Len(t)))
Token == S1!B64(C.cred)
ValidCred(v) == LET p == SplitSP(v) IN Len(p) = 2 /\ Lower(p[1]) = LitBasic /\ p[2] = Token
HasTab(v) == \E i \in 1..Len(v) : v[i] = HT
\* "yes" | "no" | "unclear" (conflicting duplicate lines, tab separators: left unconstrained, DESIGN.md 4.6)
Authorized(hs) ==
    LET F == {i \in 1..Len(hs) : Lower(hs[i][1]) = LitProxyAuthorization} IN
    IF F = {} THEN "no"
    ELSE IF \E i \in F : HasTab(hs[i][2]) THEN "unclear"
    ELSE IF \A i \in F : ValidCred(hs[i][2]) THEN "yes"
    ELSE IF \A i \in F : ~ValidCred(hs[i][2]) THEN "no"
    ELSE "unclear"

Contains(b, p) == \E i \in 1..(Len(b) - Len(p) + 1) : Sub(b, i, i + Len(p) - 1) = p
L407 == <<52, 48, 55>>
Why ==
    LET m == ParseMsg(C.req) a == Authorized(m.hdrs) r == ParseMsg(C.cgot) IN
    IF ~m.complete THEN "machinery: the client's request is not complete for the reference parser"
    ELSE IF a = "unclear" THEN "ok"
    ELSE IF a = "no" THEN
         IF C.nconnect # 0 THEN "C08 an upstream connection was attempted for an unauthenticated request"
         ELSE IF C.ugot # <<>> THEN "C08 request bytes were forwarded for an unauthenticated request"
         ELSE IF C.hooks # 0 THEN "C08 a request-handling hook of a later plugin ran for an unauthenticated request"
         ELSE IF Len(r.parts) < 2 \/ r.parts[2] # L407 THEN "C08 unauthenticated request was not answered with 407"
         ELSE IF WellFormedResponse(C.cgot) # "ok" THEN "C08 the 407 response is not well formed: " \o WellFormedResponse(C.cgot)
         ELSE IF ~C.ceof THEN "C08 connection not closed after the 407"
         ELSE "ok"
    ELSE IF Len(r.parts) >= 2 /\ r.parts[2] = L407 THEN "C08 a request carrying the configured credentials was refused with 407"
    ELSE IF C.nconnect = 0 THEN "C08 a request carrying the configured credentials was not served (no upstream connection)"
    ELSE IF Contains(Lower(C.ugot), LitProxyAuthorization) THEN "C08 the credentials were forwarded to the origin"
    ELSE IF Contains(C.ugot, Token) THEN "C08 the credential token reached the origin"
    ELSE IF C.userplugin /\ C.hooks = 0 THEN "C08 authenticated request did not reach the later plugin"
    ELSE "ok"

TInit == tid \in 1..Len(Cases) /\ verdict = ""
TNext == verdict = "" /\ verdict' = Why /\ UNCHANGED tid
TSpec == TInit /\ [][TNext]_vars
Report == verdict \in {"", "ok"} \/ PrintT("REJECTED|" \o ToString(C.id) \o "|" \o verdict)
=============================================================================
