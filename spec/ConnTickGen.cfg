SPECIFICATION GenSpec
CHECK_DEADLOCK FALSE
