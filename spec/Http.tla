------------------------------- MODULE Http -------------------------------
(* Reference semantics of HTTP/1.x messages over byte strings (Seq(0..255)), independent of the     *)
(* implementation: start line, header fields, framing (Content-Length / chunked / none), chunked     *)
(* decoding with chunk extensions and trailers, message end, remainder.  One-shot (not incremental): *)
(* the ideal incremental parser is "accumulate and re-Parse" (spec/TraceParse.tla).                  *)
(* Used by the trace specifications of C02, C03, C06, C08, C12, C13, C15.                            *)
(* Literals are in Lit.tla (generated; TLA+ has no ord()).                                           *)
EXTENDS Naturals, Sequences, FiniteSets, Lit

CR == 13
LF == 10
SP == 32
HT == 9
COLON == 58
SEMI == 59
CRLF == <<13, 10>>

Sub(b, i, j) == SubSeq(b, i, j)
MinOf(S) == CHOOSE i \in S : \A j \in S : i <= j
MaxOf(S) == CHOOSE i \in S : \A j \in S : i >= j
Lower(b) == [i \in 1..Len(b) |-> IF b[i] >= 65 /\ b[i] <= 90 THEN b[i] + 32 ELSE b[i]]
IsWs(c) == c = SP \/ c = HT
IsDigit(c) == c >= 48 /\ c <= 57

\* first index >= from of CRLF in b, 0 if none
FindCRLF(b, from) ==
    LET S == {i \in from..(Len(b) - 1) : b[i] = CR /\ b[i + 1] = LF} IN IF S = {} THEN 0 ELSE MinOf(S)
\* first index in from..to of byte c, 0 if none
FindByte(b, c, from, to) ==
    LET S == {i \in from..to : b[i] = c} IN IF S = {} THEN 0 ELSE MinOf(S)
FindLastByte(b, c, from, to) ==
    LET S == {i \in from..to : b[i] = c} IN IF S = {} THEN 0 ELSE MaxOf(S)
Trim(b) ==
    LET S == {i \in 1..Len(b) : ~IsWs(b[i])} IN IF S = {} THEN <<>> ELSE Sub(b, MinOf(S), MaxOf(S))
StartsWith(b, p) == Len(b) >= Len(p) /\ Sub(b, 1, Len(p)) = p

AllDigits(b) == b # <<>> /\ \A i \in 1..Len(b) : IsDigit(b[i])
RECURSIVE DecVal(_)
DecVal(b) == IF b = <<>> THEN 0 ELSE DecVal(Sub(b, 1, Len(b) - 1)) * 10 + (b[Len(b)] - 48)
HexDigit(c) == IF IsDigit(c) THEN c - 48 ELSE IF c >= 97 /\ c <= 102 THEN c - 87
               ELSE IF c >= 65 /\ c <= 70 THEN c - 55 ELSE 99
AllHex(b) == b # <<>> /\ \A i \in 1..Len(b) : HexDigit(b[i]) < 16
RECURSIVE HexVal(_)
HexVal(b) == IF b = <<>> THEN 0 ELSE HexVal(Sub(b, 1, Len(b) - 1)) * 16 + HexDigit(b[Len(b)])
RECURSIVE DecDigits(_)
DecDigits(n) == IF n < 10 THEN <<48 + n>> ELSE Append(DecDigits(n \div 10), 48 + (n % 10))

(* ---------------- lines ---------------- *)
\* the lines from pos up to the blank line: [ok (blank line seen), lines, next (index after the blank line's CRLF)]
RECURSIVE HeaderLines(_, _)
HeaderLines(b, pos) ==
    LET e == FindCRLF(b, pos) IN
    IF e = 0 THEN [ok |-> FALSE, lines |-> <<>>, next |-> 0]
    ELSE IF e = pos THEN [ok |-> TRUE, lines |-> <<>>, next |-> pos + 2]
    ELSE LET r == HeaderLines(b, e + 2)
         IN [ok |-> r.ok, lines |-> <<Sub(b, pos, e - 1)>> \o r.lines, next |-> r.next]

\* a header line -> <<name, value>> (split at the first colon, optional whitespace trimmed)
Header(line) ==
    LET c == FindByte(line, COLON, 1, Len(line)) IN
    IF c = 0 THEN <<Trim(line), <<>>>>
    ELSE <<Trim(Sub(line, 1, c - 1)), Trim(Sub(line, c + 1, Len(line)))>>

HasHdr(hs, lname) == \E i \in 1..Len(hs) : Lower(hs[i][1]) = lname
HdrVal(hs, lname) ==
    LET S == {i \in 1..Len(hs) : Lower(hs[i][1]) = lname} IN IF S = {} THEN <<>> ELSE hs[MaxOf(S)][2]
HdrCount(hs, lname) == Cardinality({i \in 1..Len(hs) : Lower(hs[i][1]) = lname})
\* semantic view of a header list: set of <<lower-case name, value>>
HdrSet(hs) == {<<Lower(hs[i][1]), hs[i][2]>> : i \in 1..Len(hs)}

\* start line split at its first two spaces -> 1..3 parts
Split3(line) ==
    LET a == FindByte(line, SP, 1, Len(line)) IN
    IF a = 0 THEN <<line>>
    ELSE LET c == FindByte(line, SP, a + 1, Len(line)) IN
         IF c = 0 THEN <<Sub(line, 1, a - 1), Sub(line, a + 1, Len(line))>>
         ELSE <<Sub(line, 1, a - 1), Sub(line, a + 1, c - 1), Sub(line, c + 1, Len(line))>>

(* ---------------- chunked transfer coding (RFC 7230 4.1) ---------------- *)
RECURSIVE StripZeros(_)
StripZeros(b) == IF Len(b) > 1 /\ b[1] = 48 THEN StripZeros(Sub(b, 2, Len(b))) ELSE b

\* decode from pos: [ok (complete stream seen), bad (malformed), body, next (index after the stream), n (chunks), trailers]
RECURSIVE Dechunk(_, _)
Dechunk(b, pos) ==
    LET e == FindCRLF(b, pos)
        inc == [ok |-> FALSE, bad |-> FALSE, body |-> <<>>, next |-> 0, n |-> 0, trailers |-> <<>>]
    IN
    IF e = 0 THEN inc
    ELSE LET semi == FindByte(b, SEMI, pos, e - 1)
             szb == Trim(Sub(b, pos, IF semi = 0 THEN e - 1 ELSE semi - 1))
         IN
         IF ~AllHex(szb) THEN [inc EXCEPT !.bad = TRUE]
         ELSE IF Len(StripZeros(szb)) > 7 THEN inc      \* 2^28 bytes or more: longer than any input here (and than TLC's integers)
         ELSE LET n == HexVal(StripZeros(szb)) IN
              IF n = 0
              THEN LET t == HeaderLines(b, e + 2)
                   IN [ok |-> t.ok, bad |-> FALSE, body |-> <<>>, next |-> t.next, n |-> 0, trailers |-> t.lines]
              ELSE IF Len(b) < e + 1 + n + 2 THEN inc
              ELSE IF Sub(b, e + 2 + n, e + 3 + n) # CRLF THEN [inc EXCEPT !.bad = TRUE]
              ELSE LET r == Dechunk(b, e + 4 + n)
                   IN [ok |-> r.ok, bad |-> r.bad, body |-> Sub(b, e + 2, e + 1 + n) \o r.body, next |-> r.next,
                       n |-> r.n + 1, trailers |-> r.trailers]

\* the chunked encoder: body cut into pieces of k bytes (the reference for to_chunks)
RECURSIVE HexDigits(_)
HexDigits(n) == IF n < 16 THEN <<IF n < 10 THEN 48 + n ELSE 87 + n>>
                ELSE Append(HexDigits(n \div 16), IF n % 16 < 10 THEN 48 + (n % 16) ELSE 87 + (n % 16))
RECURSIVE Enchunk(_, _)
Enchunk(body, k) ==
    IF body = <<>> THEN <<48>> \o CRLF \o CRLF
    ELSE LET n == IF Len(body) < k THEN Len(body) ELSE k
         IN HexDigits(n) \o CRLF \o Sub(body, 1, n) \o CRLF \o Enchunk(Sub(body, n + 1, Len(body)), k)

(* ---------------- a whole message ---------------- *)
Incomplete == [complete |-> FALSE, bad |-> FALSE, parts |-> <<>>, hdrs |-> <<>>, framing |-> "", body |-> <<>>,
               end |-> 0, trailers |-> <<>>, nchunks |-> 0]

\* Parse one message at the start of b.  end = index of its last byte; the remainder is Sub(b, end + 1, Len(b)).
\* Framing: chunked if Transfer-Encoding is chunked, else Content-Length n > 0, else none (the message ends with
\* its head: requests without framing headers, header-less status lines).
ParseMsg(b) ==
    LET le == FindCRLF(b, 1) IN
    IF le = 0 THEN Incomplete
    ELSE LET h == HeaderLines(b, le + 2) IN
         IF ~h.ok THEN Incomplete
         ELSE LET hs == [i \in 1..Len(h.lines) |-> Header(h.lines[i])]
                  chunked == Lower(HdrVal(hs, LitTransferEncoding)) = LitChunked
                  cl == HdrVal(hs, LitContentLength)
                  n == IF AllDigits(cl) THEN (IF Len(cl) <= 9 THEN DecVal(cl) ELSE 999999999) ELSE 0    \* TLC integers are 32 bit
                  base == [Incomplete EXCEPT !.parts = Split3(Sub(b, 1, le - 1)), !.hdrs = hs]
              IN
              IF chunked
              THEN LET d == Dechunk(b, h.next) IN
                   IF d.bad THEN [base EXCEPT !.bad = TRUE, !.framing = "chunked"]
                   ELSE IF ~d.ok THEN [base EXCEPT !.framing = "chunked"]
                   ELSE [base EXCEPT !.complete = TRUE, !.framing = "chunked", !.body = d.body, !.end = d.next - 1,
                                     !.trailers = d.trailers, !.nchunks = d.n]
              ELSE IF n > 0
              THEN IF Len(b) < h.next - 1 + n THEN [base EXCEPT !.framing = "cl"]
                   ELSE [base EXCEPT !.complete = TRUE, !.framing = "cl", !.body = Sub(b, h.next, h.next + n - 1),
                                     !.end = h.next - 1 + n]
              ELSE [base EXCEPT !.complete = TRUE, !.framing = "none", !.end = h.next - 1]

Rest(b, m) == Sub(b, m.end + 1, Len(b))

\* A response made by the proxy itself is well formed (C06): status line HTTP/1.x SP 3DIGIT [SP reason], header lines
\* with a colon and a non-empty name, framing consistent: body length = Content-Length when present, valid chunked
\* stream when chunked, never both; nothing after the message unless close-delimited.
StatusLineOk(parts) ==
    /\ Len(parts) >= 2
    /\ StartsWith(parts[1], LitHttpSlash) /\ Len(parts[1]) = 8
    /\ Len(parts[2]) = 3 /\ AllDigits(parts[2])
HeaderLineOk(line) ==
    LET c == FindByte(line, COLON, 1, Len(line)) IN c > 1 /\ \A i \in 1..(c - 1) : ~IsWs(line[i]) /\ line[i] > 32 /\ line[i] < 127
HeadOk(b) ==
    LET le == FindCRLF(b, 1) IN
    /\ le > 0
    /\ LET h == HeaderLines(b, le + 2) IN h.ok /\ \A i \in 1..Len(h.lines) : HeaderLineOk(h.lines[i])
\* -> "ok" or the reason it is not
WellFormedResponse(b) ==
    LET m == ParseMsg(b) IN
    IF ~HeadOk(b) THEN "malformed head (status line / header line / missing blank line)"
    ELSE IF ~StatusLineOk(m.parts) THEN "malformed status line"
    ELSE IF m.bad THEN "malformed chunked body"
    ELSE IF HdrCount(m.hdrs, LitContentLength) > 1 THEN "more than one Content-Length"
    ELSE IF HasHdr(m.hdrs, LitContentLength) /\ ~AllDigits(HdrVal(m.hdrs, LitContentLength)) THEN "non-numeric Content-Length"
    ELSE IF m.framing = "chunked" /\ HasHdr(m.hdrs, LitContentLength) THEN "both Content-Length and chunked"
    ELSE IF ~m.complete THEN "body shorter than its framing announces"
    ELSE IF HasHdr(m.hdrs, LitContentLength) /\ m.end # Len(b) THEN "bytes after the announced Content-Length"
    ELSE IF m.framing = "chunked" /\ m.end # Len(b) THEN "bytes after the last chunk"
    ELSE "ok"
=============================================================================
