---------------------------- MODULE TracePersist ----------------------------
(* C04, code -> spec: the settled outcome of a recorded conversation (REAL handler in the forward / web / reverse   *)
(* role, environment schedule taken from a Persist.tla behaviour) must be the outcome the design reaches under      *)
(* fairness: got = Expected(script), every origin's inbox = the requests naming it, in order; and the proxy must    *)
(* not have closed the connection while requests were unanswered.                                                   *)
(* Case: [id, script, got, inbox: [a, b], ceof]                                                                     *)
EXTENDS PersistDefs, Json, IOUtils, TLC
Cases == JsonDeserialize(IOEnv.TRACE_FILE)
VARIABLES tid, verdict
tvars == <<tid, verdict>>
C == Cases[tid]
Sc == C.script
Name(o) == IF o = "a" THEN "A" ELSE "B"
Why ==
    LET exp == Expected(Sc) n == Len(Sc) g == C.got IN
    IF \E k \in 1..Len(g) : k <= n /\ g[k][2] = exp[k][2] /\ g[k][1] # exp[k][1]
       THEN LET k == CHOOSE k \in 1..Len(g) : k <= n /\ g[k][2] = exp[k][2] /\ g[k][1] # exp[k][1] IN
            "C04 response " \o ToString(k) \o " was produced by " \o ToString(g[k][1]) \o " but request " \o ToString(k) \o " names " \o ToString(exp[k][1])
    ELSE IF \E o \in {"a", "b"} : ~IsPrefix(C.inbox[o], ExpectedInbox(Sc, o))
       THEN LET o == CHOOSE o \in {"a", "b"} : ~IsPrefix(C.inbox[o], ExpectedInbox(Sc, o)) IN
            "C04 origin/route " \o o \o " received requests " \o ToString(C.inbox[o]) \o " but the requests naming it are " \o ToString(ExpectedInbox(Sc, o))
    ELSE IF Len(g) > n THEN "C04 the client received more responses than it sent requests"
    ELSE IF ~IsPrefix(g, exp) THEN "C04 responses are not in request order: got " \o ToString(g)
    ELSE IF Len(g) < n THEN "C04 request " \o ToString(Len(g) + 1) \o " of " \o ToString(n) \o " was never answered"
                             \o (IF C.ceof THEN " (the proxy closed the connection)" ELSE " (connection left open, nothing more arrives)")
    ELSE "ok"
TInit == tid \in 1..Len(Cases) /\ verdict = ""
TNext == verdict = "" /\ verdict' = Why /\ UNCHANGED tid
TSpec == TInit /\ [][TNext]_tvars
Report == verdict \in {"", "ok"} \/ PrintT("REJECTED|" \o ToString(C.id) \o "|" \o verdict)
=============================================================================
