------------------------------ MODULE Executor ------------------------------
(* C05: one Threadless executor multiplexing several works (proxy/core/work/threadless.py), each work a black box      *)
(* whose calls return or RAISE.  Works: "adv" (adversarial: a fault is armed at one of its call sites) and "can"        *)
(* (well behaved canary that needs K loop iterations to finish).  One Tick = Threadless._run_once:                      *)
(*     for every work: get_events (-> selector registration) ; select ; accept new work (initialize) ;                  *)
(*     handle_events of ready works ; cleanup (unregister, shutdown, forget) of works that tear down or raised.          *)
(* Reap = Threadless._cleanup_inactive (is_inactive of every work, cleanup of inactive ones).                            *)
(* FIX = FALSE is the code as first found: a raise out of get_events, is_inactive or shutdown leaves the loop           *)
(* (the probe of DESIGN.md section 6, C05); FIX = TRUE is the isolation the property demands: whatever a work raises,    *)
(* wherever, that work is cleaned up and forgotten and the loop goes on.                                                *)
EXTENDS Naturals, Sequences, FiniteSets, TLC
CONSTANTS K, FIX
Sites == {"initialize", "get_events", "handle_events", "is_inactive", "shutdown"}
VARIABLES pending,    \* works accepted by the acceptor, not yet received by the executor (FIFO; one is received per iteration)
          works,      \* works the executor holds
          registered, \* works with descriptors registered in the selector
          armed,      \* site of adv at which the next call raises, or "none"
          advwants,   \* what adv's next handle_events returns when it does not raise: "go" | "teardown"
          alive,      \* the loop is still running
          progress,   \* loop iterations the canary has been served
          finished,   \* works that were shut down (their shutdown was called)
          advfd,      \* the descriptor adv's get_events reports: "main" | "alt" (a work may replace a connection of its own)
          regfds,     \* descriptors of adv the executor holds registrations for
          advmask,    \* events adv's get_events asks for: "r" | "rw" (a work with output pending also asks for writability)
          regmask,    \* events under which adv's descriptor was last registered / modified
          vanished    \* the selector has silently dropped adv's descriptor (closed / reused number: epoll forgets it) while the
                      \* executor's bookkeeping still lists it: adv gets no events, and unregistering it raises KeyError
vars == <<pending, works, registered, armed, advwants, alive, progress, finished, vanished, advmask, regmask, advfd, regfds>>

Init == /\ pending \in {<<"adv", "can">>, <<"can", "adv">>, <<"can">>} /\ works = {} /\ registered = {} /\ armed = "none" /\ advwants = "go"
        /\ alive = TRUE /\ progress = 0 /\ finished = {} /\ vanished = FALSE /\ advmask = "r" /\ regmask = "r" /\ advfd = "main" /\ regfds = {}

\* environment: arm a fault at a call site of the adversary / make it ask for teardown / a new adversary connects
Arm(s) == armed = "none" /\ alive /\ armed' = s /\ UNCHANGED <<pending, works, registered, advwants, alive, progress, finished, vanished, advmask, regmask, advfd, regfds>>
Vanish == "adv" \in registered /\ alive /\ ~vanished /\ advfd = "main" /\ vanished' = TRUE /\ UNCHANGED <<pending, works, registered, armed, advwants, alive, progress, finished, advmask, regmask, advfd, regfds>>
WantTeardown == advwants = "go" /\ alive /\ advwants' = "teardown" /\ UNCHANGED <<pending, works, registered, armed, alive, progress, finished, vanished, advmask, regmask, advfd, regfds>>
\* adv starts asking for other events than it is registered for: the executor will call selector.modify, which raises for a
\* descriptor the selector has lost (epoll_ctl(MOD) -> ENOENT after the number was closed / reused)
WantWrite == advmask = "r" /\ alive /\ advmask' = "rw" /\ UNCHANGED <<pending, works, registered, armed, advwants, alive, progress, finished, vanished, regmask, advfd, regfds>>

\* adv starts reporting another descriptor (it replaced a connection of its own): the executor registers the new one and
\* forgets the old one, whose number may come back with a different socket
Swap == advfd = "main" /\ alive /\ ~vanished /\ advfd' = "alt"
        /\ UNCHANGED <<pending, works, registered, armed, advwants, alive, progress, finished, vanished, advmask, regmask, regfds>>

Raises(w, s) == w = "adv" /\ armed = s

\* cleanup of work w: unregister, shutdown (may raise), forget.  -> [works, registered, finished, alive, armed]
CleanupOf(w, st) ==
    LET boom == Raises(w, "shutdown") /\ st.armed = "shutdown"
        keyerr == w = "adv" /\ vanished                                    \* selector.unregister raises KeyError
    IN
    IF keyerr /\ ~FIX THEN [st EXCEPT !.alive = FALSE]                      \* as found: KeyError leaves _cleanup and the loop
    ELSE
    [ works |-> IF boom /\ ~FIX THEN st.works ELSE st.works \ {w},          \* as found: the raise skips "del self.works[...]"
      registered |-> st.registered \ {w},
      finished |-> st.finished \cup {w},
      alive |-> st.alive /\ (~boom \/ FIX),
      armed |-> IF boom THEN "none" ELSE st.armed ]

GeBoom == "adv" \in works /\ armed = "get_events"
\* selector.modify for a registered work whose events changed raises when the selector has lost the descriptor
ModBoom == ~GeBoom /\ "adv" \in works /\ "adv" \in registered /\ vanished /\ advmask # regmask

Tick ==
    /\ alive
    /\ regmask' = (IF "adv" \in works /\ ~GeBoom /\ ~ModBoom THEN advmask ELSE regmask) /\ UNCHANGED <<advmask, advfd>>
    /\ LET st0 == [works |-> works, registered |-> registered, finished |-> finished, alive |-> alive, armed |-> armed]
           \* 1. refresh selector registrations: get_events of every held work
           geBoom == GeBoom
           modBoom == ModBoom
           st1 == IF geBoom
                  THEN (IF FIX THEN [CleanupOf("adv", [st0 EXCEPT !.armed = "none"]) EXCEPT !.registered = works \ {"adv"}]
                        ELSE [st0 EXCEPT !.alive = FALSE, !.armed = "none"])
                  ELSE IF modBoom
                  THEN (IF FIX THEN [CleanupOf("adv", st0) EXCEPT !.registered = works \ {"adv"}]
                        ELSE [st0 EXCEPT !.alive = FALSE])
                  ELSE [st0 EXCEPT !.registered = works]
       IN IF ~st1.alive THEN /\ alive' = FALSE /\ armed' = st1.armed /\ works' = st1.works /\ registered' = st1.registered
                             /\ finished' = st1.finished /\ UNCHANGED <<pending, advwants, progress, vanished, regfds>>
          ELSE
          \* 2. accept new work: initialize (a raise there is contained: the work is cleaned up at once)
          LET newcomers == IF pending = <<>> THEN {} ELSE {Head(pending)}
              initBoom == "adv" \in newcomers /\ st1.armed = "initialize"
              st2 == IF initBoom
                     THEN [st1 EXCEPT !.works = @ \cup (newcomers \ {"adv"}), !.finished = @ \cup {"adv"}, !.armed = "none"]
                     ELSE [st1 EXCEPT !.works = @ \cup newcomers]
              \* 3. handle_events of the works that were registered and ready (all registered works are ready in this model)
              ready == (st1.registered \cap st2.works) \ (IF vanished THEN {"adv"} ELSE {})
              heBoom == "adv" \in ready /\ st2.armed = "handle_events"
              advDown == "adv" \in ready /\ (heBoom \/ advwants = "teardown")
              st3 == IF advDown THEN CleanupOf("adv", [st2 EXCEPT !.armed = IF heBoom THEN "none" ELSE @]) ELSE st2
              canServed == "can" \in ready
              canDone == canServed /\ progress + 1 = K
              st4 == IF canDone /\ st3.alive THEN CleanupOf("can", st3) ELSE st3
          IN /\ works' = st4.works /\ registered' = st4.registered /\ finished' = st4.finished /\ alive' = st4.alive
             /\ armed' = st4.armed /\ pending' = (IF pending = <<>> THEN <<>> ELSE Tail(pending)) /\ progress' = IF canServed THEN progress + 1 ELSE progress
             /\ UNCHANGED advwants /\ vanished' = (vanished /\ "adv" \in st4.registered)
             /\ regfds' = (IF "adv" \notin st4.registered THEN {}
                           ELSE IF "adv" \in st1.registered /\ "adv" \in works THEN (IF FIX THEN {advfd} ELSE regfds \cup {advfd})
                           ELSE regfds)          \* accepted in this iteration: registered from the next one on

Reap ==
    /\ alive
    /\ LET st0 == [works |-> works, registered |-> registered, finished |-> finished, alive |-> alive, armed |-> armed]
           boom == "adv" \in works /\ armed = "is_inactive"
           st1 == IF boom THEN (IF FIX THEN CleanupOf("adv", [st0 EXCEPT !.armed = "none"]) ELSE [st0 EXCEPT !.alive = FALSE, !.armed = "none"])
                  ELSE st0
       IN /\ works' = st1.works /\ registered' = st1.registered /\ finished' = st1.finished /\ alive' = st1.alive /\ armed' = st1.armed
          /\ UNCHANGED <<pending, advwants, progress, advmask, regmask, advfd>> /\ vanished' = (vanished /\ "adv" \in st1.registered)
          /\ regfds' = (IF "adv" \in st1.registered THEN regfds ELSE {})

Next == (\E s \in Sites : Arm(s)) \/ WantTeardown \/ WantWrite \/ Vanish \/ Swap \/ Tick \/ Reap
Spec == Init /\ [][Next]_vars
FairSpec == Spec /\ WF_vars(Tick)

(* C05 *)
LoopSurvives == alive
\* nothing of a finished work stays behind in the executor's bookkeeping
NoResidue == \A w \in finished : (w \notin registered) /\ (FIX => w \notin works)
\* the executor holds registrations only for the descriptor a work reported last (no stale numbers that could come back)
NoStaleRegistrations == FIX => Cardinality(regfds) <= 1
\* the canary completes exactly as it would alone: after K iterations in which it was served, whatever the adversary does
CanaryCompletes == <>(progress = K /\ "can" \in finished)
CanaryUndisturbed == progress <= K
=============================================================================
