--------------------------- MODULE TraceTargetSeq ---------------------------
(* C14, sequences: every request of a kept-alive client connection goes to the host and port ITS OWN request-target    *)
(* names - not to the origin an earlier request of the same connection named.                                          *)
(* A case is one client connection through the REAL handler + HttpProxyPlugin on SimNet carrying 2..4 absolute-form      *)
(* requests in lock step (each answered by a faithful origin before the next is sent).  Per request k the harness          *)
(* recorded dests[k]: the addresses (as handed to the socket layer) of the upstream connections on which NEW bytes          *)
(* arrived while request k was handled.  Reference: spec/Target.tla.                                                      *)
(* Case: [id, targets: Seq(bytes), dests: Seq(Seq([host, port]))]                                                        *)
EXTENDS Target, Json, IOUtils, TLC
Cases == JsonDeserialize(IOEnv.TRACE_FILE)
VARIABLES tid, verdict
vars == <<tid, verdict>>
C == Cases[tid]
ReqWhy(k) ==
    LET t == ParseTarget(C.targets[k], FALSE) pos == " (request " \o ToString(k) \o " of a kept-alive connection)" IN
    IF ~t.ok \/ t.form # "absolute" \/ t.port = 0 THEN "machinery: sequence target not a valid absolute-form target for the reference"
    ELSE IF Len(C.dests[k]) = 0 THEN "C14 request reached no origin" \o pos
    ELSE IF Len(C.dests[k]) > 1 THEN "C14 request was sent over more than one upstream connection" \o pos
    ELSE IF C.dests[k][1].host # t.host THEN "C14 request was sent to a host its request-target does not name" \o pos
    ELSE IF C.dests[k][1].port # t.port THEN "C14 request was sent to a port its request-target does not name" \o pos
    ELSE "ok"
Why == LET bad == {k \in 1..Len(C.dests) : ReqWhy(k) # "ok"} IN IF bad = {} THEN "ok" ELSE ReqWhy(MinOf(bad))
TInit == tid \in 1..Len(Cases) /\ verdict = ""
TNext == verdict = "" /\ verdict' = Why /\ UNCHANGED tid
TSpec == TInit /\ [][TNext]_vars
Report == verdict \in {"", "ok"} \/ PrintT("REJECTED|" \o ToString(C.id) \o "|" \o verdict)
=============================================================================
