------------------------------ MODULE Target ------------------------------
(* Reference parser for HTTP request-targets (RFC 7230 5.3 over RFC 3986, restricted to the http scheme and  *)
(* the three forms a proxy sees): origin-form "/path?query", absolute-form "http://[userinfo@]host[:port]..." *)
(* and, for CONNECT, authority-form "host:port".  Independent of proxy/http/url.py.                           *)
(* Result: [ok, form, host (IPv6 literals WITHOUT brackets), v6 (host was a bracketed literal), port (default  *)
(* 80, 443 for CONNECT), explicit (a port was written), path (origin-form of the target; "/" when empty),       *)
(* user (userinfo, <<>> if none)].                                                                             *)
EXTENDS Http

SLASH == 47
AT == 64
LB == 91
RB == 93
QM == 63
HASH == 35

BadTarget == [ok |-> FALSE, form |-> "", host |-> <<>>, v6 |-> FALSE, port |-> 0, explicit |-> FALSE, path |-> <<>>, user |-> <<>>]

\* port text -> [ok, explicit, n]
PortOf(p, dflt) ==
    IF p = <<>> THEN [ok |-> TRUE, explicit |-> FALSE, n |-> dflt]        \* "host:" = no port (RFC 3986 3.2.3)
    ELSE IF ~AllDigits(p) \/ Len(p) > 5 THEN [ok |-> FALSE, explicit |-> TRUE, n |-> 0]
    ELSE LET n == DecVal(p) IN [ok |-> n <= 65535, explicit |-> TRUE, n |-> n]

HostCharOk(c) == c > 32 /\ c # 127 /\ c # SLASH /\ c # QM /\ c # HASH /\ c # AT /\ c # LB /\ c # RB

ParseAuthority(a, dflt, form, path) ==
    LET at == FindLastByte(a, AT, 1, Len(a))
        user == IF at = 0 THEN <<>> ELSE Sub(a, 1, at - 1)
        hp == Sub(a, at + 1, Len(a))
    IN
    IF hp = <<>> THEN BadTarget
    ELSE IF hp[1] = LB
    THEN LET rb == FindByte(hp, RB, 1, Len(hp)) IN
         IF rb = 0 \/ rb = 2 THEN BadTarget
         ELSE LET host == Sub(hp, 2, rb - 1)
                  after == Sub(hp, rb + 1, Len(hp))
                  pt == IF after = <<>> THEN PortOf(<<>>, dflt) ELSE PortOf(Sub(after, 2, Len(after)), dflt)
              IN IF (after # <<>> /\ after[1] # COLON) \/ ~pt.ok
                    \/ ~(\A i \in 1..Len(host) : HexDigit(host[i]) < 16 \/ host[i] = COLON \/ host[i] = 46)
                    \/ FindByte(host, COLON, 1, Len(host)) = 0
                 THEN BadTarget
                 ELSE [ok |-> TRUE, form |-> form, host |-> host, v6 |-> TRUE, port |-> pt.n, explicit |-> pt.explicit,
                       path |-> path, user |-> user]
    ELSE LET c == FindLastByte(hp, COLON, 1, Len(hp))
             host == IF c = 0 THEN hp ELSE Sub(hp, 1, c - 1)
             pt == IF c = 0 THEN PortOf(<<>>, dflt) ELSE PortOf(Sub(hp, c + 1, Len(hp)), dflt)
         IN IF host = <<>> \/ ~pt.ok \/ ~(\A i \in 1..Len(host) : HostCharOk(host[i]) /\ host[i] # COLON)
            THEN BadTarget
            ELSE [ok |-> TRUE, form |-> form, host |-> host, v6 |-> FALSE, port |-> pt.n, explicit |-> pt.explicit,
                  path |-> path, user |-> user]

ParseTarget(t, connect) ==
    IF t = <<>> \/ \E i \in 1..Len(t) : t[i] <= 32 \/ t[i] = 127 THEN BadTarget
    ELSE IF connect THEN ParseAuthority(t, 443, "authority", <<>>)
    ELSE IF t[1] = SLASH THEN [BadTarget EXCEPT !.ok = TRUE, !.form = "origin", !.path = t]
    ELSE LET S == {i \in 1..(Len(t) - 2) : Sub(t, i, i + 2) = LitSchemeSep} IN
         IF S = {} THEN BadTarget
         ELSE LET s == MinOf(S)
                  scheme == Lower(Sub(t, 1, s - 1))
                  rest == Sub(t, s + 3, Len(t))
                  E == {i \in 1..Len(rest) : rest[i] = SLASH \/ rest[i] = QM \/ rest[i] = HASH}
                  e == IF E = {} THEN Len(rest) + 1 ELSE MinOf(E)
                  tail == Sub(rest, e, Len(rest))
                  path == IF tail = <<>> THEN <<SLASH>> ELSE IF tail[1] = SLASH THEN tail ELSE <<SLASH>> \o tail
              IN IF scheme # LitHttp THEN BadTarget
                 ELSE ParseAuthority(Sub(rest, 1, e - 1), 80, "absolute", path)

\* an upstream URL of a reverse-proxy route: http or https, default port by scheme
ParseUrl(t) ==
    LET S == {i \in 1..(Len(t) - 2) : Sub(t, i, i + 2) = LitSchemeSep} IN
    IF S = {} THEN BadTarget
    ELSE LET s == MinOf(S)
             scheme == Lower(Sub(t, 1, s - 1))
             rest == Sub(t, s + 3, Len(t))
             E == {i \in 1..Len(rest) : rest[i] = SLASH \/ rest[i] = QM \/ rest[i] = HASH}
             e == IF E = {} THEN Len(rest) + 1 ELSE MinOf(E)
             tail == Sub(rest, e, Len(rest))
             path == IF tail = <<>> THEN <<SLASH>> ELSE IF tail[1] = SLASH THEN tail ELSE <<SLASH>> \o tail
         IN IF scheme = LitHttp THEN ParseAuthority(Sub(rest, 1, e - 1), 80, "absolute", path)
            ELSE IF scheme = LitHttps THEN ParseAuthority(Sub(rest, 1, e - 1), 443, "absolute", path)
            ELSE BadTarget
\* the authority exactly as written in the URL (host[:port]), for the Host header rewrite
UrlAuthority(t) ==
    LET s == MinOf({i \in 1..(Len(t) - 2) : Sub(t, i, i + 2) = LitSchemeSep})
        rest == Sub(t, s + 3, Len(t))
        E == {i \in 1..Len(rest) : rest[i] = SLASH \/ rest[i] = QM \/ rest[i] = HASH}
        a == Sub(rest, 1, (IF E = {} THEN Len(rest) + 1 ELSE MinOf(E)) - 1)
        at == FindLastByte(a, AT, 1, Len(a))
    IN Sub(a, at + 1, Len(a))
=============================================================================
