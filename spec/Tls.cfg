SPECIFICATION Spec
INVARIANT NeverTrustBad
INVARIANT LeafNamesHost
PROPERTY EndsRight
CHECK_DEADLOCK FALSE
