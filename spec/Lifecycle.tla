------------------------------ MODULE Lifecycle ------------------------------
(* C19: start-up and shutdown of the proxy process (proxy/proxy.py Proxy.setup / shutdown, core/listener/pool.py).           *)
(* A configuration: hosts (1..2 listening addresses), port (fixed number or 0 = assigned by the OS), ports (0..3 additional     *)
(* ports, fixed or 0; 0 only with a single address), unix (listen on a Unix socket INSTEAD of the primary TCP port),             *)
(* files (pid and port file requested).  The model walks the ordered steps of setup and shutdown; a crash-free run ends Up,      *)
(* then Down.  What must hold Up / Down is stated over the OBSERVABLE facts: which (host, port) pairs accept, what the           *)
(* embedding API and the port file report, which files exist, whether children remain.                                          *)
EXTENDS Naturals, Sequences, FiniteSets, TLC
CONSTANTS Hosts, FixedPorts
Cfgs == [hosts : (SUBSET Hosts) \ {{}}, port : FixedPorts \cup {0}, nports : 0..3, zero : BOOLEAN, unix : BOOLEAN, files : BOOLEAN]
Valid(c) == (c.zero \/ c.port = 0) => Cardinality(c.hosts) = 1
VARIABLES cfg, phase, bound, primary, reported, portfile, pidfile, unixsock, children
vars == <<cfg, phase, bound, primary, reported, portfile, pidfile, unixsock, children>>
\* the additional ports of a configuration: distinct fixed numbers, or OS-assigned ones (modelled as numbers above every fixed one)
Additional(c) == IF c.zero THEN {1000 + k : k \in 1..c.nports} ELSE {2000 + k : k \in 1..c.nports}
PrimaryOf(c) == IF c.port = 0 THEN 999 ELSE c.port
Init == /\ cfg \in {c \in Cfgs : Valid(c)} /\ phase = "down" /\ bound = {} /\ primary = 0 /\ reported = <<>> /\ portfile = <<>>
        /\ pidfile = FALSE /\ unixsock = FALSE /\ children = 0
Step(from, to) == phase = from /\ phase' = to
WritePid  == Step("down", "pid") /\ pidfile' = cfg.files /\ UNCHANGED <<cfg, bound, primary, reported, portfile, unixsock, children>>
Listen    == /\ Step("pid", "listening")
             /\ bound' = {<<h, p>> : h \in cfg.hosts, p \in (IF cfg.unix THEN {} ELSE {PrimaryOf(cfg)}) \cup Additional(cfg)}
             /\ unixsock' = cfg.unix /\ primary' = IF cfg.unix THEN 0 ELSE PrimaryOf(cfg)
             /\ UNCHANGED <<cfg, reported, portfile, pidfile, children>>
Report    == /\ Step("listening", "reported")
             /\ reported' = (IF cfg.unix THEN <<>> ELSE <<primary>>) \o <<Additional(cfg)>>       \* <<primary, set of additional ports>>
             /\ portfile' = IF cfg.files THEN reported' ELSE <<>>
             /\ UNCHANGED <<cfg, bound, primary, pidfile, unixsock, children>>
Workers   == Step("reported", "up") /\ children' = 1 /\ UNCHANGED <<cfg, bound, primary, reported, portfile, pidfile, unixsock>>
StopWork  == Step("up", "stopping") /\ children' = 0 /\ UNCHANGED <<cfg, bound, primary, reported, portfile, pidfile, unixsock>>
Unlisten  == Step("stopping", "closed") /\ bound' = {} /\ unixsock' = FALSE /\ UNCHANGED <<cfg, primary, reported, portfile, pidfile, children>>
RmFiles   == Step("closed", "done") /\ portfile' = <<>> /\ pidfile' = FALSE /\ UNCHANGED <<cfg, bound, primary, reported, unixsock, children>>
Next == WritePid \/ Listen \/ Report \/ Workers \/ StopWork \/ Unlisten \/ RmFiles
Spec == Init /\ [][Next]_vars /\ WF_vars(Next)

BoundPorts == {e[2] : e \in bound}
Up == phase = "up" =>
        /\ \A h \in cfg.hosts : \A p \in BoundPorts : <<h, p>> \in bound          \* every configured endpoint accepts
        /\ (~cfg.unix => reported[1] = primary /\ primary \in BoundPorts)          \* the primary port is reported truthfully, first
        /\ (IF cfg.unix THEN reported[1] ELSE {reported[1]} \cup reported[2]) = BoundPorts
        /\ (cfg.files => portfile = reported)
Down == phase = "done" => bound = {} /\ ~unixsock /\ children = 0 /\ ~pidfile /\ portfile = <<>>
ReachesUpThenDown == <>(phase = "up") /\ <>(phase = "done")
=============================================================================
