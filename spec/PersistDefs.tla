---------------------------- MODULE PersistDefs ----------------------------
(* The settled outcome demanded by C04, as a function of the client's script (shared by the design model Persist   *)
(* and the trace specification TracePersist).                                                                       *)
EXTENDS Naturals, Sequences
\* what the client must have received when everything has settled: one response per request, in order, from the named origin
Expected(sc) == [k \in 1..Len(sc) |-> <<sc[k], k>>]
ExpectedInbox(sc, o) == LET RECURSIVE F(_) F(k) == IF k > Len(sc) THEN <<>> ELSE (IF sc[k] = o THEN <<k>> ELSE <<>>) \o F(k + 1) IN F(1)

IsPrefix(a, b) == Len(a) <= Len(b) /\ \A k \in 1..Len(a) : a[k] = b[k]
=============================================================================
