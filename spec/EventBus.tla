------------------------------ MODULE EventBus ------------------------------
(* C18: the event bus (proxy/core/event: EventQueue -> EventDispatcher -> subscriber channels).                         *)
(* Clients enqueue SUBSCRIBE(s, channel) / UNSUBSCRIBE(s) / published events on ONE FIFO queue; the dispatcher consumes   *)
(* one entry at a time (EventDispatcher.handle_event): SUBSCRIBE -> table[s] := channel, ack "S"; UNSUBSCRIBE -> ack "U",   *)
(* close, forget (unknown ids ignored); event -> send to every subscriber in the table; a channel whose send raises       *)
(* BrokenPipe is closed and forgotten - the others are unaffected and the dispatcher goes on.                             *)
(* chan[s] is what has been delivered on the channel of s's CURRENT subscription (a re-subscription opens a new channel).  *)
EXTENDS Naturals, Sequences, FiniteSets, TLC
CONSTANTS Subs, NEV, NOPS

AckS == 0        \* subscription acknowledgement (SUBSCRIBED) on a channel; events are numbered 1..NEV
AckU == 99       \* unsubscription acknowledgement (UNSUBSCRIBED)

VARIABLES queue,    \* Seq of [k |-> "sub"|"unsub"|"pub", s, n]
          table,    \* ids the dispatcher currently holds a channel for
          chan,     \* [Subs -> Seq of AckS | AckU | event number]
          broken,   \* [Subs -> BOOLEAN] the subscriber closed the reading end of its current channel
          cst,      \* [Subs -> "idle" | "subscribing"] client side: has an open subscription request / subscription
          start,    \* [Subs -> number of events dispatched before the current subscription was registered]
          npub,     \* events published so far
          disp,     \* events dispatched so far
          nops,     \* operations issued (bounds the model)
          alive
vars == <<queue, table, chan, broken, cst, start, npub, disp, nops, alive>>

Init == /\ queue = <<>> /\ table = {} /\ chan = [s \in Subs |-> <<>>] /\ broken = [s \in Subs |-> FALSE]
        /\ cst = [s \in Subs |-> "idle"] /\ start = [s \in Subs |-> 0] /\ npub = 0 /\ disp = 0 /\ nops = 0 /\ alive = TRUE

Op == nops < NOPS /\ nops' = nops + 1
Subscribe(s) == /\ Op /\ cst[s] = "idle" /\ s \notin table
                /\ ~\E k \in 1..Len(queue) : queue[k].s = s /\ queue[k].k # "pub"
                /\ cst' = [cst EXCEPT ![s] = "subscribing"] /\ chan' = [chan EXCEPT ![s] = <<>>] /\ broken' = [broken EXCEPT ![s] = FALSE]
                /\ queue' = Append(queue, [k |-> "sub", s |-> s, n |-> 0])
                /\ UNCHANGED <<table, start, npub, disp, alive>>
\* unsubscription may be asked for any id at any time (known, unknown, repeated)
Unsubscribe(s) == /\ Op /\ queue' = Append(queue, [k |-> "unsub", s |-> s, n |-> 0])
                  /\ cst' = [cst EXCEPT ![s] = "idle"]
                  /\ UNCHANGED <<table, chan, broken, start, npub, disp, alive>>
Publish == /\ Op /\ npub < NEV /\ npub' = npub + 1 /\ queue' = Append(queue, [k |-> "pub", s |-> "", n |-> npub + 1])
           /\ UNCHANGED <<table, chan, broken, cst, start, disp, alive>>
Break(s) == /\ Op /\ cst[s] = "subscribing" /\ ~broken[s] /\ broken' = [broken EXCEPT ![s] = TRUE]
            /\ UNCHANGED <<queue, table, chan, cst, start, npub, disp, alive>>

Dispatch ==
    /\ queue # <<>> /\ alive
    /\ LET e == Head(queue) IN
       /\ queue' = Tail(queue)
       /\ CASE e.k = "sub" ->
                 /\ IF broken[e.s] THEN table' = table \ {e.s} /\ UNCHANGED chan            \* the ack cannot be sent: forgotten at once
                    ELSE table' = table \cup {e.s} /\ chan' = [chan EXCEPT ![e.s] = Append(@, AckS)]
                 /\ start' = [start EXCEPT ![e.s] = disp] /\ UNCHANGED disp
            [] e.k = "unsub" ->
                 /\ IF e.s \in table
                    THEN table' = table \ {e.s} /\ chan' = (IF broken[e.s] THEN chan ELSE [chan EXCEPT ![e.s] = Append(@, AckU)])
                    ELSE UNCHANGED <<table, chan>>
                 /\ UNCHANGED <<start, disp>>
            [] e.k = "pub" ->
                 /\ table' = {s \in table : ~broken[s]}
                 /\ chan' = [s \in Subs |-> IF s \in table /\ ~broken[s] THEN Append(chan[s], e.n) ELSE chan[s]]
                 /\ disp' = disp + 1 /\ UNCHANGED start
    /\ UNCHANGED <<broken, cst, npub, nops, alive>>

Next == (\E s \in Subs : Subscribe(s) \/ Unsubscribe(s) \/ Break(s)) \/ Publish \/ Dispatch
Spec == Init /\ [][Next]_vars

(* ---------------- C18 ---------------- *)
Nums(q) == SelectSeq(q, LAMBDA x : x \notin {AckS, AckU})
\* on every channel: first the subscription acknowledgement, then exactly the events dispatched since, once each, in order,
\* then (at most) the unsubscription acknowledgement, and nothing after it
ChannelShape(s) ==
    LET q == chan[s] n == Nums(q) IN
    /\ (q # <<>> => q[1] = AckS)
    /\ \A k \in 2..Len(q) : q[k] # AckS
    /\ \A k \in 1..(Len(q) - 1) : q[k] # AckU
    /\ \A k \in 1..Len(n) : n[k] = start[s] + k
ExactlyOnceInOrder == \A s \in Subs : ChannelShape(s)
\* a current, unbroken subscriber has received EVERY event dispatched since its subscription
NothingLost == \A s \in table : ~broken[s] => Len(Nums(chan[s])) = disp - start[s]
DispatcherAlive == alive
\* a breaking channel changes nobody else's deliveries (action property)
BreakIsolated == [][\A s \in Subs : (broken'[s] # broken[s]) => \A t \in Subs \ {s} : chan'[t] = chan[t]]_vars
=============================================================================
