SPECIFICATION FairSpec
INVARIANT LoopSurvives
INVARIANT NoResidue
INVARIANT NoStaleRegistrations
INVARIANT CanaryUndisturbed
PROPERTY CanaryCompletes
CHECK_DEADLOCK FALSE
