SPECIFICATION FairSpec
INVARIANT LoopSurvives
INVARIANT NoResidue
INVARIANT CanaryUndisturbed
PROPERTY CanaryCompletes
CHECK_DEADLOCK FALSE
