SPECIFICATION TSpec
CONSTRAINT Report
INVARIANT SaneInv
CHECK_DEADLOCK FALSE
