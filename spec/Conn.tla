------------------------------- MODULE Conn -------------------------------
(* One proxied client connection at the SYSCALL level: what the properties C01 (relay integrity)  *)
(* and C07 (queued output is delivered before close) allow the proxy to do, and nothing more.     *)
(*                                                                                                 *)
(* The proxy is unconstrained in everything the properties do not mention: how much it reads or    *)
(* writes per call, in which order it serves its sockets, how it batches.  What IS constrained is   *)
(* written as named clauses on the proxy's actions (so a rejected implementation trace names the   *)
(* clause it broke), and as invariants over the counters.                                          *)
(*                                                                                                 *)
(* Sockets: "c" = the client connection, "u" = the upstream connection (proxy side of each).       *)
(* Per socket s, counters in bytes:                                                                *)
(*   pin[s]  written by the peer application towards the proxy                                     *)
(*   prd[s]  received by the proxy (recv)                                                          *)
(*   rel[s]  of those, relayed = queued unmodified and in order to the opposite socket             *)
(*   q[s]    queued by the proxy for sending on s (relay + the proxy's own output)                 *)
(*   own[s]  of q[s], the proxy's own output (tunnel acknowledgement, error pages, web replies)    *)
(*   snt[s]  accepted by send() on s            pgt[s]  read by the peer application               *)
EXTENDS Naturals, Sequences, TLC

Sock == {"c", "u"}
Opp(s) == IF s = "c" THEN "u" ELSE "c"

Init0 == [ mode   |-> "tunnel",                 \* "tunnel": both directions are relays; "http": only u -> c
           pin    |-> [s \in Sock |-> 0], prd |-> [s \in Sock |-> 0], rel |-> [s \in Sock |-> 0],
           q      |-> [s \in Sock |-> 0], own |-> [s \in Sock |-> 0], snt |-> [s \in Sock |-> 0],
           pgt    |-> [s \in Sock |-> 0],
           pst    |-> [s \in Sock |-> IF s = "c" THEN "open" ELSE "none"],   \* proxy side: none | open | closed
           peer   |-> [s \in Sock |-> "open"],                               \* open | wrshut | closed | reset
           eof    |-> [s \in Sock |-> FALSE],   \* the proxy has seen end-of-stream on s
           rderr  |-> [s \in Sock |-> FALSE],   \* a recv on s raised
           wrerr  |-> [s \in Sock |-> FALSE],   \* a send on s raised (peer gone)
           estab  |-> FALSE,                    \* exchange established: first relayed byte or the tunnel ack queued
           relayed|-> FALSE,                    \* some upstream byte has been queued to the client
           ticks  |-> 0,
           drainT |-> 0,                        \* tick at which the close condition of the client became true
           reaped |-> FALSE ]

(* ------------------------------------------------------------------------------------------- *)
(* Environment (peer applications); these only keep the counters consistent.                    *)
(* ------------------------------------------------------------------------------------------- *)
PSend(st, s, n)  == [st EXCEPT !.pin[s] = @ + n]
PRead(st, s, n)  == [st EXCEPT !.pgt[s] = @ + n]
PShut(st, s)     == [st EXCEPT !.peer[s] = IF @ = "open" THEN "wrshut" ELSE @]
PClose(st, s)    == [st EXCEPT !.peer[s] = "closed"]
PReset(st, s)    == [st EXCEPT !.peer[s] = "reset"]
EnvOk(st, s)     == st.pgt[s] <= st.snt[s] /\ st.prd[s] <= st.pin[s]

(* ------------------------------------------------------------------------------------------- *)
(* Proxy actions.  Each has a list of <<clause name, condition>>; the action is allowed iff all  *)
(* conditions hold, and Why(..) is the first clause that does not.                               *)
(* ------------------------------------------------------------------------------------------- *)
Why(cl) == LET bad == {i \in 1..Len(cl) : ~cl[i][2]}
           IN IF bad = {} THEN "ok" ELSE cl[CHOOSE i \in bad : \A j \in bad : i <= j][1]

ClientLive(st)   == st.peer["c"] = "open" /\ ~st.wrerr["c"] /\ ~st.rderr["c"] /\ ~st.eof["c"]
ClientReads(st)  == st.peer["c"] \in {"open", "wrshut"} /\ ~st.wrerr["c"]     \* may still receive
UpLive(st)       == st.pst["u"] = "open" /\ st.peer["u"] = "open" /\ ~st.wrerr["u"] /\ ~st.rderr["u"] /\ ~st.eof["u"]

\* recv on s returned n > 0 bytes
RecvCl(st, s, n) == << <<"machinery: recv on a socket the proxy does not hold open", st.pst[s] = "open">>,
                       <<"machinery: recv returned bytes that were never sent", st.prd[s] + n <= st.pin[s]>> >>
Recv(st, s, n)   == [st EXCEPT !.prd[s] = @ + n]
RecvEof(st, s)   == [st EXCEPT !.eof[s] = TRUE]
RecvErr(st, s)   == [st EXCEPT !.rderr[s] = TRUE]

\* the proxy queues n bytes for sending on s; src = "own" or the socket they were received on;
\* roff = offset of these bytes in the stream received on src (as found by content, see harness/tracer.py)
QueueCl(st, s, n, src, roff, same) ==
    IF src = "own"
    THEN << <<"C01 proxy injected its own bytes into an established relayed stream",
              ~(s = "c" /\ st.relayed) /\ ~(s = "u" /\ st.mode = "tunnel" /\ st.estab)>> >>
    ELSE << <<"C01 relayed bytes were modified on their way through the proxy", same>>,
            <<"C01 relayed bytes are not the next unrelayed bytes of the source stream (lost, duplicated or reordered)",
              roff = st.rel[src]>>,
            <<"machinery: relayed more than was received", roff + n <= st.prd[src]>> >>
Queue(st, s, n, src, roff) ==
    [st EXCEPT !.q[s] = @ + n,
               !.own[s] = IF src = "own" THEN @ + n ELSE @,
               \* what the client sent before the exchange was established (its CONNECT request) is not relay payload
               !.rel = IF src = "own" THEN (IF s = "c" /\ ~st.estab THEN [@ EXCEPT !["c"] = st.prd["c"]] ELSE @)
                       ELSE [@ EXCEPT ![src] = roff + n],
               !.estab = TRUE,
               !.relayed = @ \/ (s = "c" /\ src = "u")]

\* send on s accepted n of the offered bytes; ok = the accepted bytes are exactly bytes snt[s] .. snt[s]+n of what was queued
SendCl(st, s, n, ok) ==
    << <<"machinery: send on a socket the proxy does not hold open", st.pst[s] = "open">>,
       <<"machinery: sent more than was queued", st.snt[s] + n <= st.q[s]>>,
       <<"C01 bytes handed to send() differ from the queued stream at this offset (modified, skipped or repeated)", ok>> >>
Send(st, s, n)   == [st EXCEPT !.snt[s] = @ + n]
SendErr(st, s)   == [st EXCEPT !.wrerr[s] = TRUE]

Connect(st)      == [st EXCEPT !.pst["u"] = "open"]

\* the proxy closes its side of s
CloseCl(st, s) ==
    IF s = "c" THEN
      << <<"C07 client connection closed while queued output was not fully sent",
           ClientReads(st) => st.snt["c"] = st.q["c"]>>,
         <<"C01 client connection closed while bytes received from upstream were never queued to the client",
           (ClientReads(st) /\ st.pst["u"] # "none") => st.rel["u"] = st.prd["u"]>>,
         <<"C07 close did not follow promptly once the output was out (more than 2 loop iterations later)",
           st.drainT = 0 \/ st.ticks - st.drainT <= 2>>,
         <<"C07 connection ended while upstream bytes were still in flight and the client was live (upstream data abandoned)",
           (ClientLive(st) /\ st.pst["u"] # "none" /\ st.peer["u"] # "reset" /\ ~st.rderr["u"] /\ ~st.reaped)
              => st.prd["u"] = st.pin["u"]>> >>
    ELSE
      << <<"C01 upstream connection closed while bytes queued for it were not fully sent and it was still open (client -> upstream data dropped)",
           (st.peer["u"] = "open" /\ ~st.wrerr["u"] /\ ~st.rderr["u"] /\ ~st.eof["u"] /\ st.mode = "tunnel" /\ ~st.reaped)
              => st.snt["u"] = st.q["u"]>>,
         <<"C01 upstream connection closed while bytes received from the client were never queued to it",
           (st.peer["u"] = "open" /\ ~st.wrerr["u"] /\ ~st.rderr["u"] /\ ~st.eof["u"] /\ st.mode = "tunnel" /\ ~st.reaped)
              => st.rel["c"] = st.prd["c"]>> >>
Close(st, s)     == [st EXCEPT !.pst[s] = "closed"]

\* the condition under which C07 wants the client connection closed "promptly": the upstream has ended,
\* everything received from it is out.
ShouldClose(st)  == st.pst["c"] = "open" /\ st.pst["u"] # "none" /\ (st.eof["u"] \/ st.rderr["u"])
                    /\ st.rel["u"] = st.prd["u"] /\ st.snt["c"] = st.q["c"]
Tick(st)         == [st EXCEPT !.ticks = @ + 1,
                               !.drainT = IF ShouldClose(st) THEN (IF @ = 0 THEN st.ticks + 1 ELSE @) ELSE 0]

\* end of a trace that finished with a fair drain phase (peers kept reading, proxy kept being scheduled)
EndCl(st) ==
    << <<"C07 close did not follow promptly after the output was delivered (connection still open at quiescence)",
         ~ShouldClose(st)>>,
       <<"C01/C07 quiescent with the client live but queued output unsent",
         (st.pst["c"] = "open" /\ ClientReads(st)) => st.snt["c"] = st.q["c"]>>,
       <<"C01 quiescent with upstream bytes received but never queued to the client",
         (st.pst["c"] = "open" /\ ClientReads(st) /\ st.pst["u"] = "open") => st.rel["u"] = st.prd["u"]>>,
       <<"C01 quiescent with upstream bytes in flight that the proxy never read",
         (st.pst["c"] = "open" /\ ClientLive(st) /\ UpLive(st)) => st.prd["u"] = st.pin["u"]>>,
       <<"C01 quiescent with client bytes queued for a live upstream but unsent",
         (st.pst["u"] = "open" /\ UpLive(st) /\ st.mode = "tunnel") => st.snt["u"] = st.q["u"] /\ st.rel["c"] = st.prd["c"]>>,
       <<"C01 quiescent with client bytes in flight that the proxy never read",
         (st.pst["u"] = "open" /\ UpLive(st) /\ ClientLive(st) /\ st.mode = "tunnel") => st.prd["c"] = st.pin["c"]>>,
       <<"C01 what the client application read is not what was sent to it",
         st.pgt["c"] <= st.snt["c"]>> >>

(* Invariants over the counters (hold on every accepted prefix). *)
Sane(st) == \A s \in Sock : /\ st.prd[s] <= st.pin[s] /\ st.rel[s] <= st.prd[s]
                            /\ st.snt[s] <= st.q[s]   /\ st.pgt[s] <= st.snt[s] /\ st.own[s] <= st.q[s]
=============================================================================
