----------------------------- MODULE CodecLaws -----------------------------
(* Laws of the reference codec itself, checked exhaustively by TLC (so that the reference the implementation   *)
(* is judged against is not vacuous or self-inconsistent):                                                      *)
(*   Dechunk(Enchunk(b, k)) = b, consumes exactly the stream, in ceil(|b|/k) chunks, for every body b over an     *)
(*   alphabet of bytes that look like chunk syntax, |b| <= L, and every chunk size k <= S, with arbitrary tails;  *)
(*   ParseMsg(head(b) \o b \o tail) yields b and tail for Content-Length and chunked framing.                     *)
EXTENDS Http, TLC
CONSTANTS L, S
Alpha == {13, 10, 48, 97, 59}
Tails == {<<>>, <<88>>, <<13, 10>>, <<48, 13, 10, 13, 10>>}
VARIABLES b, k, tail
vars == <<b, k, tail>>
Init == /\ b \in UNION {[1..n -> Alpha] : n \in 0..L} /\ k \in 1..S /\ tail \in Tails
Next == UNCHANGED vars
Spec == Init /\ [][Next]_vars

ChunkLaw == LET enc == Enchunk(b, k) d == Dechunk(enc \o tail, 1)
            IN d.ok /\ ~d.bad /\ d.body = b /\ d.next - 1 = Len(enc) /\ d.n = (Len(b) + k - 1) \div k
HeadCL == <<72,84,84,80,47,49,46,49,32,50,48,48,32,79,75,13,10>> \o <<67,111,110,116,101,110,116,45,76,101,110,103,116,104,58,32>>
          \o DecDigits(Len(b)) \o CRLF \o CRLF
HeadTE == <<80,79,83,84,32,47,32,72,84,84,80,47,49,46,49,13,10>> \o <<84,114,97,110,115,102,101,114,45,69,110,99,111,100,105,110,103,58,9,67,104,117,110,107,101,100,32>>
          \o CRLF \o CRLF
MsgLawCL == LET m == ParseMsg(HeadCL \o b \o tail)
            IN IF Len(b) = 0 THEN m.complete /\ m.framing = "none" /\ m.end = Len(HeadCL)
               ELSE m.complete /\ m.framing = "cl" /\ m.body = b /\ Rest(HeadCL \o b \o tail, m) = tail
MsgLawTE == LET raw == HeadTE \o Enchunk(b, k) \o tail m == ParseMsg(raw)
            IN m.complete /\ m.framing = "chunked" /\ m.body = b /\ Rest(raw, m) = tail /\ Len(m.parts) = 3
\* a truncated stream is never reported complete
PrefixLaw == LET enc == Enchunk(b, k) IN \A n \in 0..(Len(enc) - 1) : ~Dechunk(Sub(enc, 1, n), 1).ok
=============================================================================
