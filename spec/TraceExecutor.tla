---------------------------- MODULE TraceExecutor ----------------------------
(* C05, sub-check (i): the REAL Threadless executor with scripted works that raise where a behaviour of Executor.tla   *)
(* says.  Every step of the behaviour is executed on the real object; the abstract state observed after the step      *)
(* must be the state the model (FIX = TRUE: the isolation the property demands) reaches by the same action.           *)
(* Case: [id, pending, steps: Seq of [act, site, obs: [alive, works, registered, finished, progress]]]                *)
EXTENDS Executor, Json, IOUtils
Cases == JsonDeserialize(IOEnv.TRACE_FILE)
VARIABLES tid, l, verdict
tvars == <<vars, tid, l, verdict>>
C == Cases[tid]
SetOf(q) == {q[k] : k \in 1..Len(q)}
TInit == /\ tid \in 1..Len(Cases) /\ l = 1 /\ verdict = "ok"
         /\ pending = Cases[tid].pending /\ works = {} /\ registered = {} /\ armed = "none" /\ advwants = "go"
         /\ alive = TRUE /\ progress = 0 /\ finished = {} /\ vanished = FALSE /\ advmask = "r" /\ regmask = "r" /\ advfd = "main" /\ regfds = {}
St == C.steps[l]
ObsWhy(o) ==
    IF o.alive # alive' THEN (IF alive' THEN "C05 the executor loop died (" \o o.err \o ") where the isolation property demands it survives: step " \o St.act \o " " \o St.site
                              ELSE "machinery: model loop dead, real loop alive")
    ELSE IF ~alive' THEN "ok"
    ELSE IF SetOf(o.works) # works' THEN "C05 executor bookkeeping differs after " \o St.act \o ": holds works " \o ToString(SetOf(o.works)) \o ", expected " \o ToString(works')
    ELSE IF SetOf(o.registered) # registered' THEN "C05 selector registrations differ after " \o St.act \o ": " \o ToString(SetOf(o.registered)) \o ", expected " \o ToString(registered')
    ELSE IF SetOf(o.finished) # finished' THEN "C05 works shut down differ after " \o St.act \o ": " \o ToString(SetOf(o.finished)) \o ", expected " \o ToString(finished')
    ELSE IF SetOf(o.regfds) # regfds' THEN "C05 descriptors registered for the adversary's work after " \o St.act \o ": " \o ToString(SetOf(o.regfds)) \o ", expected " \o ToString(regfds')
                                              \o " (a descriptor the work no longer reports must be forgotten)"
    ELSE IF o.progress # progress' THEN "C05 the canary was served " \o ToString(o.progress) \o " iterations, expected " \o ToString(progress')
    ELSE "ok"
TNext == /\ verdict = "ok" /\ l <= Len(C.steps)
         /\ CASE St.act = "Arm" -> Arm(St.site)
              [] St.act = "WantTeardown" -> WantTeardown
              [] St.act = "WantWrite" -> WantWrite
              [] St.act = "Swap" -> Swap
              [] St.act = "Vanish" -> Vanish
              [] St.act = "Tick" -> Tick
              [] St.act = "Reap" -> Reap
         /\ verdict' = ObsWhy(St.obs)
         /\ l' = l + 1 /\ UNCHANGED tid
TSpec == TInit /\ [][TNext]_tvars
Report == verdict = "ok" \/ PrintT("REJECTED|" \o ToString(C.id) \o "|" \o ToString(l - 1) \o "|" \o verdict)
=============================================================================
