SPECIFICATION Spec
CONSTANTS
 T = 2
 CAP = 1
 MAXT = 7
PROPERTY ReapedOnlyIfIdle
INVARIANT NeverWithPending
CHECK_DEADLOCK FALSE
