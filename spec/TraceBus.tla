------------------------------ MODULE TraceBus ------------------------------
(* C18, code -> spec: behaviours of EventBus.tla are executed step by step on the REAL EventQueue + EventDispatcher with   *)
(* real multiprocessing pipes (a break = the subscriber closes its reading end); the abstract state observed after every  *)
(* step (dispatcher table, what each open channel has delivered so far, dispatcher alive) must be the model's successor.  *)
(* Case: [id, steps: Seq of [act, s, obs: [table, chan: [a, b, c], alive]]]                                               *)
EXTENDS EventBus, Json, IOUtils
Cases == JsonDeserialize(IOEnv.TRACE_FILE)
VARIABLES tid, l, verdict
tvars == <<vars, tid, l, verdict>>
C == Cases[tid]
St == C.steps[l]
SetOf(q) == {q[k] : k \in 1..Len(q)}
TInit == /\ tid \in 1..Len(Cases) /\ l = 1 /\ verdict = "ok" /\ Init
ObsWhy(o) ==
    IF ~o.alive THEN "C18 the dispatcher stopped: " \o o.err
    ELSE IF SetOf(o.table) # table' THEN "C18 after " \o St.act \o " " \o St.s \o " the dispatcher holds subscribers " \o ToString(SetOf(o.table)) \o ", expected " \o ToString(table')
    ELSE IF \E s \in Subs : ~broken'[s] /\ o.chan[s] # chan'[s]
         THEN LET s == CHOOSE s \in Subs : ~broken'[s] /\ o.chan[s] # chan'[s] IN
              "C18 after " \o St.act \o " " \o St.s \o " subscriber " \o s \o " has been delivered " \o ToString(o.chan[s]) \o ", expected " \o ToString(chan'[s])
                \o " (0 = subscribed ack, 99 = unsubscribed ack, n = event n)"
    ELSE "ok"
TNext == /\ verdict = "ok" /\ l <= Len(C.steps)
         /\ CASE St.act = "Subscribe" -> Subscribe(St.s)
              [] St.act = "Unsubscribe" -> Unsubscribe(St.s)
              [] St.act = "Break" -> Break(St.s)
              [] St.act = "Publish" -> Publish
              [] St.act = "Dispatch" -> Dispatch
         /\ verdict' = ObsWhy(St.obs)
         /\ l' = l + 1 /\ UNCHANGED tid
TSpec == TInit /\ [][TNext]_tvars
Report == verdict = "ok" \/ PrintT("REJECTED|" \o ToString(C.id) \o "|" \o ToString(l - 1) \o "|" \o verdict)
=============================================================================
