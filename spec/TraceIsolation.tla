---------------------------- MODULE TraceIsolation ----------------------------
(* C05, sub-check (ii): the REAL handler stack.  A well-behaved canary connection shares the executor with an           *)
(* adversarial connection (malformed input, abort, injected socket error, failing upstream, in every role).  The        *)
(* canary's observable outcome (bytes it received, bytes its origin received, end-of-stream) must equal its outcome     *)
(* when it runs alone, and the worker must still be running.                                                            *)
(* Case: [id, alone: [cgot, ugot, ceof], with: [cgot, ugot, ceof], alive, err]                                          *)
EXTENDS Naturals, Sequences, Json, IOUtils, TLC
Cases == JsonDeserialize(IOEnv.TRACE_FILE)
VARIABLES tid, verdict
vars == <<tid, verdict>>
C == Cases[tid]
Why == IF ~C.alive THEN "C05 the worker stopped serving: " \o C.err
       ELSE IF C.with.cgot # C.alone.cgot THEN "C05 the well-behaved connection received something else than it does alone"
       ELSE IF C.with.ugot # C.alone.ugot THEN "C05 the well-behaved connection's origin received something else than it does alone"
       ELSE IF C.with.ceof # C.alone.ceof THEN "C05 the well-behaved connection ended differently than it does alone"
       ELSE IF C.after.cgot # C.alone.cgot \/ C.after.ugot # C.alone.ugot THEN "C05 a SUBSEQUENT well-behaved connection on the same worker did not complete as it does alone"
       ELSE "ok"
TInit == tid \in 1..Len(Cases) /\ verdict = ""
TNext == verdict = "" /\ verdict' = Why /\ UNCHANGED tid
TSpec == TInit /\ [][TNext]_vars
Report == verdict \in {"", "ok"} \/ PrintT("REJECTED|" \o ToString(C.id) \o "|" \o verdict)
=============================================================================
