SPECIFICATION Spec
CONSTANTS
  L = 5
  S = 3
INVARIANT ChunkLaw
INVARIANT MsgLawCL
INVARIANT MsgLawTE
INVARIANT PrefixLaw
CHECK_DEADLOCK FALSE
