SPECIFICATION Spec
INVARIANT ExactlyOnceInOrder
INVARIANT NothingLost
INVARIANT DispatcherAlive
PROPERTY BreakIsolated
CHECK_DEADLOCK FALSE
