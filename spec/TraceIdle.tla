------------------------------ MODULE TraceIdle ------------------------------
(* C20, code -> spec: behaviours of Idle.tla executed on the REAL handler (an established CONNECT tunnel on SimNet with a   *)
(* virtual clock; Reap = the executor's own _cleanup_inactive; threaded mode: the is_inactive check of run()).  After every *)
(* step the connection must be closed exactly when the model says, and the output held for the client must agree.           *)
(* Case: [id, steps: Seq of [act, obs: [closed, pending]]]                                                                 *)
EXTENDS Idle, Sequences, Json, IOUtils
Cases == JsonDeserialize(IOEnv.TRACE_FILE)
VARIABLES tid, l, verdict
tvars == <<vars, tid, l, verdict>>
C == Cases[tid]
St == C.steps[l]
TInit == tid \in 1..Len(Cases) /\ l = 1 /\ verdict = "ok" /\ Init
ObsWhy(o) ==
    IF o.closed /\ ~closed' THEN
         (IF St.act = "Reap" THEN "C20 the idle reaper closed a connection that " \o
              (IF pending > 0 THEN "still has undelivered output" ELSE "had client-side traffic within the timeout (idle for "
                 \o ToString(now - lastAct) \o " units, timeout " \o ToString(T) \o ")")
          ELSE "C20 the connection was closed by step " \o St.act \o " although nothing ended it")
    ELSE IF ~o.closed /\ closed' THEN "C20 an idle connection without pending output was not closed by the reaper sweep (idle for "
                                       \o ToString(now - lastAct) \o " units, timeout " \o ToString(T) \o ")"
    ELSE IF ~closed' /\ (o.pending > 0) # (pending' > 0) THEN "machinery: pending output differs between model and execution after " \o St.act
    ELSE "ok"
TNext == /\ verdict = "ok" /\ l <= Len(C.steps)
         /\ CASE St.act = "Advance" -> Advance [] St.act = "CSend" -> CSend [] St.act = "CTouch" -> CTouch [] St.act = "USend" -> USend
              [] St.act = "CRead" -> CRead [] St.act = "Reap" -> Reap
         /\ verdict' = ObsWhy(St.obs)
         /\ l' = l + 1 /\ UNCHANGED tid
TSpec == TInit /\ [][TNext]_tvars
Report == verdict = "ok" \/ PrintT("REJECTED|" \o ToString(C.id) \o "|" \o ToString(l - 1) \o "|" \o verdict)
=============================================================================
