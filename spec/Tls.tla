--------------------------------- MODULE Tls ---------------------------------
(* C11: TLS interception as a protocol over FACTS (signature chains, name matching and expiry are judged by OpenSSL and        *)
(* enter as booleans).  A case: origin certificate situation x insecure switch x per-request opt-out x certificate cache x       *)
(* kind of CONNECT host.  Steps follow HttpProxyPlugin.on_request_complete / intercept (proxy/http/proxy/server.py):            *)
(*   Connect -> (opt-out: relay opaquely) | WrapUpstream (verify unless insecure) -> GenLeaf -> WrapClient -> RelayPlain.        *)
EXTENDS Naturals, TLC
Certs == {"trusted", "selfsigned", "wrongname", "expired"}
VARIABLES cert, insecure, optout, warm, hostkind,
          pc,            \* "start" | "connected" | "upstream_tls" | "leaf" | "client_tls" | "opaque" | "refused" | "relaying"
          verified,      \* the upstream certificate was verified against the trust store and the CONNECT host
          leafFor,       \* the host the generated leaf names ("" = none yet)
          appdata        \* application data has been relayed (in either direction)
vars == <<cert, insecure, optout, warm, hostkind, pc, verified, leafFor, appdata>>
Init == /\ cert \in Certs /\ insecure \in BOOLEAN /\ optout \in BOOLEAN /\ warm \in BOOLEAN /\ hostkind \in {"name", "ipv4"}
        /\ pc = "start" /\ verified = FALSE /\ leafFor = "" /\ appdata = FALSE
Good == cert = "trusted"
Connect      == pc = "start" /\ pc' = (IF optout THEN "opaque" ELSE "connected") /\ UNCHANGED <<cert, insecure, optout, warm, hostkind, verified, leafFor, appdata>>
WrapUpstream == /\ pc = "connected"
                /\ IF insecure THEN pc' = "upstream_tls" /\ UNCHANGED verified
                   ELSE IF Good THEN pc' = "upstream_tls" /\ verified' = TRUE
                   ELSE pc' = "refused" /\ UNCHANGED verified
                /\ UNCHANGED <<cert, insecure, optout, warm, hostkind, leafFor, appdata>>
GenLeaf      == pc = "upstream_tls" /\ pc' = "leaf" /\ leafFor' = hostkind /\ UNCHANGED <<cert, insecure, optout, warm, hostkind, verified, appdata>>
WrapClient   == pc = "leaf" /\ pc' = "client_tls" /\ UNCHANGED <<cert, insecure, optout, warm, hostkind, verified, leafFor, appdata>>
RelayPlain   == pc = "client_tls" /\ pc' = "relaying" /\ appdata' = TRUE /\ UNCHANGED <<cert, insecure, optout, warm, hostkind, verified, leafFor>>
RelayOpaque  == pc = "opaque" /\ pc' = "relaying" /\ appdata' = TRUE /\ UNCHANGED <<cert, insecure, optout, warm, hostkind, verified, leafFor>>
Next == Connect \/ WrapUpstream \/ GenLeaf \/ WrapClient \/ RelayPlain \/ RelayOpaque
Spec == Init /\ [][Next]_vars /\ WF_vars(Next)
\* never trust a bad upstream: application data flows only over a verified upstream session, or with verification switched
\* off by the operator, or through an opaque tunnel the proxy does not terminate
NeverTrustBad == appdata => (verified \/ insecure \/ optout)
\* the client is only ever presented a leaf for the host it asked for
LeafNamesHost == leafFor # "" => leafFor = hostkind
\* what a conversation must end in, as a function of the case (used by TraceTls)
Outcome(c, ins, opt) == IF opt THEN "opaque" ELSE IF ins \/ c = "trusted" THEN "intercepted" ELSE "refused"
EndsRight == <>(pc = (IF Outcome(cert, insecure, optout) = "refused" THEN "refused" ELSE "relaying"))
=============================================================================
