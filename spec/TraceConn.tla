----------------------------- MODULE TraceConn -----------------------------
(* Batch validation of implementation traces (recorded on SimNet / RealNet from the real handler) *)
(* against Conn.tla.  Traces == sequence of [id, mode, ev], ev a sequence of event records:       *)
(*   [e |-> "psend"|"pread"|"pshut"|"pclose"|"preset", s, n]            peer applications          *)
(*   [e |-> "recv", s, res |-> "data"|"eof"|"err"|"again", n]           proxy syscalls             *)
(*   [e |-> "send", s, res |-> "ok"|"err"|"again", n, ok]                                          *)
(*   [e |-> "queue", s, n, src, roff, same]   [e |-> "connect"]  [e |-> "close", s]  [e |-> "shutdown", s] *)
(*   [e |-> "tick"]  [e |-> "reaped"]  [e |-> "end"]                                                *)
(* The trace spec is deterministic: every event either advances the Conn state or yields the name  *)
(* of the clause it breaks; so validation is linear and every verdict names its clause.            *)
EXTENDS Conn, Json, IOUtils

Traces == JsonDeserialize(IOEnv.TRACE_FILE)
VARIABLES tid, l, st, verdict
vars == <<tid, l, st, verdict>>

Ev == Traces[tid].ev[l]

Judge(ev, s0) ==
    CASE ev.e = "recv" /\ ev.res = "data" -> Why(RecvCl(s0, ev.s, ev.n))
      [] ev.e = "queue"                  -> Why(QueueCl(s0, ev.s, ev.n, ev.src, ev.roff, ev.same))
      [] ev.e = "send" /\ ev.res = "ok"  -> Why(SendCl(s0, ev.s, ev.n, ev.ok))
      [] ev.e = "close"                  -> IF s0.pst[ev.s] = "open" THEN Why(CloseCl(s0, ev.s)) ELSE "ok"
      [] ev.e = "end"                    -> Why(EndCl(s0))
      [] OTHER                           -> "ok"

Apply(ev, s0) ==
    CASE ev.e = "psend"  -> PSend(s0, ev.s, ev.n)
      [] ev.e = "pread"  -> PRead(s0, ev.s, ev.n)
      [] ev.e = "pshut"  -> PShut(s0, ev.s)
      [] ev.e = "pclose" -> PClose(s0, ev.s)
      [] ev.e = "preset" -> PReset(s0, ev.s)
      [] ev.e = "recv"   -> (CASE ev.res = "data" -> Recv(s0, ev.s, ev.n)
                               [] ev.res = "eof"  -> RecvEof(s0, ev.s)
                               [] ev.res = "err"  -> RecvErr(s0, ev.s)
                               [] OTHER -> s0)
      [] ev.e = "send"   -> (CASE ev.res = "ok"   -> Send(s0, ev.s, ev.n)
                               [] ev.res = "err"  -> SendErr(s0, ev.s)
                               [] OTHER -> s0)
      [] ev.e = "queue"  -> Queue(s0, ev.s, ev.n, ev.src, ev.roff)
      [] ev.e = "connect"-> Connect(s0)
      [] ev.e = "close"  -> Close(s0, ev.s)
      [] ev.e = "tick"   -> Tick(s0)
      [] ev.e = "reaped" -> [s0 EXCEPT !.reaped = TRUE]
      [] OTHER -> s0

TInit == /\ tid \in 1..Len(Traces) /\ l = 1 /\ verdict = "ok"
         /\ st = [Init0 EXCEPT !.mode = Traces[tid].mode]
TNext == /\ verdict = "ok" /\ l <= Len(Traces[tid].ev)
         /\ LET v == Judge(Ev, st) IN
              /\ verdict' = v
              /\ st' = IF v = "ok" THEN Apply(Ev, st) ELSE st
         /\ l' = l + 1 /\ UNCHANGED tid
TSpec == TInit /\ [][TNext]_vars

\* printed once per rejected trace: id, index of the rejected event, clause
Report == verdict = "ok" \/ PrintT("REJECTED|" \o ToString(Traces[tid].id) \o "|" \o ToString(l - 1) \o "|" \o verdict)
SaneInv == verdict # "ok" \/ Sane(st)
=============================================================================
