------------------------------ MODULE TraceRes ------------------------------
(* C10, code -> spec: the descriptor-level event log of one connection history on the REAL handler stack (SimNet: lowest-  *)
(* free descriptor numbering, CPython-like finalisers, epoll-like selector) is stepped through Resources.tla; an event      *)
(* whose action is not enabled names the clause it breaks.  The final "end" event carries the census after the connection   *)
(* is over (and after the history was repeated): descriptors still open, selector entries, executor bookkeeping.            *)
(* Case: [id, ev: Seq of [e, fd, gc, res, name]], census: [open, sel, works, regs, unfinished], growth]                     *)
EXTENDS Resources, Sequences, Json, IOUtils
Cases == JsonDeserialize(IOEnv.TRACE_FILE)
VARIABLES tid, l, verdict
tvars == <<vars, tid, l, verdict>>
C == Cases[tid]
E == C.ev[l]
TInit == tid \in 1..Len(Cases) /\ l = 1 /\ verdict = "ok" /\ Init
Step(e) ==
    CASE e.e = "open" -> IF e.fd \in open THEN <<"machinery: descriptor number allocated twice", vars>>
                         ELSE <<"ok", <<open \cup {e.fd}, sel, over, ever + 1>>>>
      [] e.e = "close" -> IF e.fd \notin open THEN <<"C10 descriptor " \o ToString(e.fd) \o " (" \o e.name \o ") closed although the connection no longer holds it (released twice)", vars>>
                          ELSE IF e.gc THEN <<"C10 socket " \o e.name \o " was never closed by the proxy: it was only reclaimed by the garbage collector", vars>>
                          ELSE <<"ok", <<open \ {e.fd}, sel, over, ever>>>>
      [] e.e = "reg" -> IF e.res # "ok" THEN <<"C10 descriptor " \o ToString(e.fd) \o " registered with the selector twice (" \o e.res \o ")", vars>>
                        ELSE <<"ok", <<open, sel \cup {e.fd}, over, ever>>>>
      [] e.e = "unreg" -> IF e.res # "ok" \/ e.fd \notin sel THEN <<"C10 descriptor " \o ToString(e.fd) \o " unregistered although it is not registered (released twice)", vars>>
                          ELSE <<"ok", <<open, sel \ {e.fd}, over, ever>>>>
      [] e.e = "dropped" -> <<"ok", <<open, sel \ {e.fd}, over, ever>>>>        \* selector.modify on a vanished descriptor drops the entry itself
      [] e.e = "end" ->
            IF C.census.open # <<>> THEN <<"C10 sockets still open after the connection is over: " \o ToString(C.census.open), vars>>
            ELSE IF C.census.sel # <<>> THEN <<"C10 descriptors still registered with the selector after the connection is over: " \o ToString(C.census.sel), vars>>
            ELSE IF C.census.works # 0 THEN <<"C10 the worker still holds the connection after it is over", vars>>
            ELSE IF C.census.regs # 0 THEN <<"C10 the worker's registration bookkeeping still lists the connection after it is over", vars>>
            ELSE IF C.growth # 0 THEN <<"C10 repeating the history grows the worker's set of open descriptors by " \o ToString(C.growth), vars>>
            ELSE IF open # {} \/ sel # {} THEN <<"machinery: log and census disagree", vars>>
            ELSE <<"ok", <<open, sel, TRUE, ever>>>>
      [] OTHER -> <<"ok", vars>>
TNext == /\ verdict = "ok" /\ l <= Len(C.ev)
         /\ LET r == Step(E) IN verdict' = r[1] /\ open' = r[2][1] /\ sel' = r[2][2] /\ over' = r[2][3] /\ ever' = r[2][4]
         /\ l' = l + 1 /\ UNCHANGED tid
TSpec == TInit /\ [][TNext]_tvars
Report == verdict = "ok" \/ PrintT("REJECTED|" \o ToString(C.id) \o "|" \o ToString(l - 1) \o "|" \o verdict)
=============================================================================
