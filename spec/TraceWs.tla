---------------------------- MODULE TraceWs ----------------------------
(* Judges implementation executions of WebsocketFrame.build / parse against WsCodec.           *)
(* One record per case (written by checks/c16.py from the real code):                           *)
(*   id, fin, rsv1, rsv2, rsv3, opcode, masked, key (<<>> = let the implementation choose),     *)
(*   n, salt (payload = Pat(n, salt)), trail (bytes appended before parsing),                   *)
(*   exc ("" or the exception raised), built (bytes returned by build()),                       *)
(*   p = fields after parse(built \o trail), rest = what parse returned.                        *)
EXTENDS WsCodec, TLC, Json, IOUtils

Cases == JsonDeserialize(IOEnv.TRACE_FILE)
VARIABLE i
Init == i \in 1..Len(Cases)
Next == FALSE /\ i' = i
Spec == Init /\ [][Next]_i

KeyOff(built) == 2 + ExtLen(built[2])

Frame(c) ==
    [fin |-> c.fin, rsv1 |-> c.rsv1, rsv2 |-> c.rsv2, rsv3 |-> c.rsv3, opcode |-> c.opcode,
     masked |-> c.masked,
     key |-> IF ~c.masked THEN <<>>
             ELSE IF c.key # <<>> THEN c.key
             ELSE SubSeq(c.built, KeyOff(c.built) + 1, KeyOff(c.built) + 4),
     payload |-> Pat(c.n, c.salt)]

Verdict(c) ==
    IF c.exc # "" THEN "raised: " \o c.exc
    ELSE IF Len(c.built) < 2 \/ (c.masked /\ c.key = <<>> /\ Len(c.built) < KeyOff(c.built) + 4)
         THEN "build: output shorter than a frame header"
    ELSE LET f == Frame(c)
             d == Decode(c.built \o c.trail)
         IN IF c.built # Encode(f) THEN "build: bytes differ from RFC 6455 encoding"
            ELSE IF ~SameFrame(f, d) \/ d.rest # c.trail THEN "spec-internal: Decode(Encode(f) \\o t) # <<f, t>>"
            ELSE IF c.p.fin # f.fin \/ c.p.rsv1 # f.rsv1 \/ c.p.rsv2 # f.rsv2 \/ c.p.rsv3 # f.rsv3
                    \/ c.p.opcode # f.opcode \/ c.p.masked # f.masked THEN "parse: flag / opcode fields differ"
            ELSE IF c.p.len # c.n THEN "parse: payload_length differs"
            ELSE IF f.masked /\ c.p.mask # f.key THEN "parse: masking key differs"
            ELSE IF c.p.data # f.payload THEN "parse: payload differs"
            ELSE IF c.rest # c.trail THEN "parse: remainder differs from the bytes after the frame"
            ELSE "ok"

Judge == LET v == Verdict(Cases[i]) IN v = "ok" \/ PrintT("REJECTED|" \o ToString(Cases[i].id) \o "|" \o v)
=============================================================================
