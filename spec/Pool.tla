--------------------------------- MODULE Pool ---------------------------------
(* The upstream connection pool (proxy/core/connection/pool.py UpstreamConnectionPool): a pool of pools, one per upstream     *)
(* address, of connections that are either REUSABLE (owned by the pool, watched for readability to detect that the upstream    *)
(* went away) or IN USE (borrowed by exactly one work).  This module is not anchored in one of the twenty properties; it        *)
(* extends the specification to behaviour they only touch (C10: what is opened is closed; C05: borrowed descriptors).           *)
(*   Acquire(a)  -> a reusable connection to a if there is one, else a newly connected one; it becomes in use                  *)
(*   Retain(c)   -> a borrowed connection is handed back for reuse                                                            *)
(*   Release(c)  -> a borrowed connection is handed back for good: shut down, closed, forgotten                               *)
(*   PeerEnds(c) / Sweep -> a reusable connection that became readable (upstream closed or sent stray data) is closed, forgotten *)
EXTENDS Naturals, FiniteSets, TLC
CONSTANTS Addr, MAXC,
          UNAMBIG    \* generation only: never more than one reusable candidate per address (which one the real pool picks is its own choice)
Conn == 1..MAXC
VARIABLES pool,      \* [Conn -> [addr, st]] for the connections the pool knows: st \in {"reusable", "inuse"}
          known,     \* set of connection ids in the pool's tables
          closed,    \* connection ids whose socket has been closed
          readable,  \* connection ids whose socket is readable (the upstream ended or sent something)
          next       \* next fresh connection id
vars == <<pool, known, closed, readable, next>>
Init == pool = [c \in Conn |-> [addr |-> "", st |-> ""]] /\ known = {} /\ closed = {} /\ readable = {} /\ next = 1
Reusable(a) == {c \in known : pool[c].addr = a /\ pool[c].st = "reusable"}
Acquire(a) ==
    /\ (UNAMBIG => Cardinality(Reusable(a)) <= 1)
    /\ IF Reusable(a) # {}
       THEN \E c \in Reusable(a) : pool' = [pool EXCEPT ![c].st = "inuse"] /\ UNCHANGED <<known, closed, readable, next>>
       ELSE /\ next <= MAXC
            /\ pool' = [pool EXCEPT ![next] = [addr |-> a, st |-> "inuse"]] /\ known' = known \cup {next} /\ next' = next + 1
            /\ UNCHANGED <<closed, readable>>
Retain(c)  == c \in known /\ pool[c].st = "inuse" /\ c \notin closed /\ pool' = [pool EXCEPT ![c].st = "reusable"] /\ UNCHANGED <<known, closed, readable, next>>
Release(c) == c \in known /\ pool[c].st = "inuse" /\ known' = known \ {c} /\ closed' = closed \cup {c} /\ readable' = readable \ {c} /\ UNCHANGED <<pool, next>>
PeerEnds(c) == c \in known /\ c \notin readable /\ readable' = readable \cup {c} /\ UNCHANGED <<pool, known, closed, next>>
\* one pass of the event loop over the pool's own (reusable) descriptors
Sweep == /\ \E c \in known : pool[c].st = "reusable" /\ c \in readable
         /\ LET dead == {c \in known : pool[c].st = "reusable" /\ c \in readable} IN
            known' = known \ dead /\ closed' = closed \cup dead /\ readable' = readable \ dead
         /\ UNCHANGED <<pool, next>>
Next == (\E a \in Addr : Acquire(a)) \/ (\E c \in Conn : Retain(c) \/ Release(c) \/ PeerEnds(c)) \/ Sweep
Spec == Init /\ [][Next]_vars
\* whatever the pool still knows is open; whatever it forgot is closed (nothing leaks, nothing is used after close)
KnownOpen == known \cap closed = {}
ForgottenClosed == \A c \in 1..(next - 1) : c \notin known => c \in closed
\* a connection is never lent to two borrowers: Acquire only hands out reusable or fresh ones (action property)
NeverLentTwice == [][\A c \in Conn : (c \in known /\ pool[c].st = "inuse" /\ c \in known') => (pool'[c].st = "inuse" \/ pool'[c].st = "reusable")]_vars
=============================================================================
