"""C02 - the forwarded HTTP request is semantically identical to the client's.

(S) spec/Http.tla + spec/Target.tla reference parser; spec/TraceForward.tla: Expected(request, configuration).
(R) conversations of 1..3 grammar-generated proxy requests (every framing, header casing / spacing variants, proxy
    headers, operator-disabled headers, with and without proxy authentication) through the REAL handler +
    HttpProxyPlugin on SimNet, each request delivered in seeded pieces (one piece, cuts inside line ends, a few random
    cuts, one byte per segment), the origin answering in lock step.
(V) TLC parses both what the client sent and what the origin received with the reference parser and decides.
"""
import base64
import random

from harness import tlc, httpgen, scen
from harness.common import main, MachineryError

RESP = b'HTTP/1.1 200 OK\r\nContent-Length: 2\r\n\r\nok'


def make_request(rnd, auth, framing, nbody, last=False):
    form = rnd.choice(['absolute', 'absolute-port'])
    raw, desc = httpgen.request(rnd, framing, nbody=nbody, form=form, nh=rnd.randrange(0, 4),
                                chunk_opts=rnd.choice([{}, {'ext': True}, {'trailer': True}, {'lead0': True}]))
    # add the proxy-specific headers after the request line
    line, rest = raw.split(b'\r\n', 1)
    extra = b''
    cas = httpgen.CASINGS[rnd.randrange(4)]
    if rnd.random() < .5:
        extra += cas(b'Proxy-Connection') + b': ' + rnd.choice([b'keep-alive', b'Keep-Alive']) + b'\r\n'
    if auth:
        extra += cas(b'Proxy-Authorization') + b':' + rnd.choice([b' ', b'  ', b'']) + rnd.choice([b'Basic', b'basic', b'BASIC']) + \
            b' ' + base64.b64encode(auth) + b'\r\n'
    if rnd.random() < .5:
        extra += rnd.choice([b'Host', b'host', b'HOST']) + b': origin.example\r\n'
    if rnd.random() < .3:
        extra += b'Connection: keep-alive\r\n'
    # keep-alive: HTTP/1.1 so that follow-up requests are possible; the LAST request of a conversation may be HTTP/1.0
    version = b'HTTP/1.0' if last and rnd.random() < .5 else b'HTTP/1.1'
    line = line.rsplit(b' ', 1)[0] + b' ' + version
    desc['version'] = version.decode()
    desc['proxy_headers'] = extra.decode('latin1')
    return line + b'\r\n' + extra + rest, desc


def run(chk):
    quick = chk.tier == 'quick'
    rnd = random.Random(chk.seed * 17 + 2)
    nconv = 260 if quick else 1800
    cases, descs = [], {}
    styles = ['one', 'crlf', 'few', 'two', 'bytes']
    for k in range(nconv):
        auth = b'user:pa:ss' if k % 3 == 0 else None
        disabled = [b'x-b', b'cookie'] if k % 2 == 0 else []
        args = []
        if auth:
            args += ['--basic-auth', auth.decode()]
        if disabled:
            args += ['--disable-headers', ','.join(d.decode() for d in disabled)]
        threaded = k % 4 == 3          # every fourth conversation with the connection handled as --threaded mode does
        conv = scen.Conversation(args=args, threaded=threaded)
        c = conv.client()
        nreq = 1 + k % 3
        reqs, ds = [], []
        for i in range(nreq):
            framing = ['none', 'cl', 'chunked'][(k + i) % 3]
            nbody = 0 if framing == 'none' else rnd.choice([0, 1, 5, 17, 300]) if framing == 'chunked' else rnd.choice([1, 5, 17, 300])
            raw, d = make_request(rnd, auth, framing, nbody, last=(i == nreq - 1))
            style = styles[(k // 3 + i) % len(styles)]
            if style == 'bytes' and len(raw) > 260:
                style = 'few'
            d['segments'] = style
            seen = [len(u_.got) for u_ in conv.sim.upstreams]
            for piece in scen.pieces(raw, rnd, style):
                conv.step(('c', piece))
            # the origin the request went to answers (a follow-up request naming another origin goes over a new upstream connection);
            # a HEAD request is answered with the header block only, as origins do
            # (an origin only answers a request it has received: the connection on which new bytes arrived)
            grew = [n + 1 for n, u_ in enumerate(conv.sim.upstreams) if len(u_.got) > (seen[n] if n < len(seen) else 0)]
            if grew:
                answer = RESP[:-2] if raw.startswith(b'HEAD ') else rnd.choice([RESP, RESP, RESP, b'HTTP/1.1 204 No Content\r\n\r\n',
                                                                             b'HTTP/1.1 304 Not Modified\r\nContent-Length: 7\r\nETag: "e"\r\n\r\n',
                                                                             b'HTTP/1.1 100 Continue\r\n\r\n' + RESP])
                conv.step(('u', grew[-1], answer))
            reqs.append(raw)
            ds.append(d)
        t = conv.transcript()
        ugot = b''.join(u_['got'] for u_ in t['upstreams'])             # in connect order = request order (lock step)
        cid = len(cases) + 1
        cases.append({'id': cid, 'reqs': [list(r) for r in reqs], 'ugot': list(ugot), 'disabled': [list(d) for d in disabled]})
        descs[cid] = {'mode': 'threaded' if threaded else 'threadless', 'auth': bool(auth), 'disabled': [d.decode() for d in disabled], 'requests': ds,
                      'client_got_responses': t['clients'][0]['got'].count(b'HTTP/1.1 200 OK'), 'loop_alive': t['alive'],
                      'upstream_connections': len(t['upstreams'])}
        if not t['alive']:
            chk.notes.append('executor loop died in conversation %d: %s (reported under C05)' % (cid, t['loop_error']))
    results, rej = tlc.run_sharded('TraceForward', 'TraceForward.cfg', cases, shards=16, timeout=1200)
    m = tlc.Merged(results)
    chk.add_tlc('TraceForward (%d conversations, %d requests)' % (len(cases), sum(len(c['reqs']) for c in cases)), m)
    if m.status == 'failed':
        raise MachineryError('TraceForward: ' + m.brief())
    chk.traces(len(cases))
    byid = {c['id']: c for c in cases}
    for cid, clause in rej:
        if clause.startswith('machinery'):
            raise MachineryError('case %d: %s (%s)' % (cid, clause, descs[cid]))
        d = descs[cid]
        pos = 'later' if '(request 1 ' not in clause and 'request 1 of' not in clause else 'first'
        sig = {'clause': clause.split(' (request')[0].split(' of the connection')[0], 'position': pos}
        c = byid[cid]
        chk.violation(sig, clause, {'case': d, 'client_sent': [bytes(r).decode('latin1') for r in c['reqs']],
                                    'origin_received': bytes(c['ugot']).decode('latin1')})
    for c in cases[:3]:
        chk.sample({'case': descs[c['id']], 'client_sent': [bytes(r).decode('latin1')[:300] for r in c['reqs']],
                    'origin_received': bytes(c['ugot']).decode('latin1')[:400]})
    chk.cov['requests'] = sum(len(c['reqs']) for c in cases)
    chk.assume('header names are case-insensitively unique per request (as the property quantifies)',
               'the origin answers each request before the client sends the next (lock step); several requests per segment are C04',
               'byte-exhaustive cut positions of the parser are C03; here each request is cut in seeded positions')


if __name__ == '__main__':
    main(run, 'C02')
