"""C19 - the proxy listens where configured, reports its ports truthfully, shuts down cleanly.

(S) spec/Lifecycle.tla: the ordered steps of Proxy.setup / shutdown over the configuration space (1..2 addresses, fixed
    or OS-assigned primary port, 0..3 additional ports fixed or OS-assigned, Unix socket, pid / port files); TLC: Up, Down,
    and the liveness property ReachesUpThenDown.
(R) RealNet: for each configuration a REAL embedded Proxy is set up and shut down in a child process of the check; the
    facts are observed from outside the proxy's bookkeeping: the process' listening sockets from /proc/net/tcp{,6} matched
    against /proc/self/fd, connect() probes per endpoint, multiprocessing children, files on disk.
(V) spec/TraceLifecycle.tla judges the facts of every configuration.
"""
import itertools
import json
import multiprocessing as mp
import os
import random
import socket
import subprocess
import sys
import tempfile

from harness import tlc
from harness.common import main, MachineryError, REPO

ADDR = {'v4': '127.0.0.1', 'v6': '::1'}

CHILD = r'''
import json, os, socket, sys, time, multiprocessing, logging
sys.path.insert(0, %(repo)r)
logging.disable(logging.CRITICAL)
cfg = json.loads(sys.argv[1])
ADDR = {'v4': '127.0.0.1', 'v6': '::1'}

def listening():
    inodes = set()
    for n in os.listdir('/proc/self/fd'):
        try:
            t = os.readlink('/proc/self/fd/' + n)
        except OSError:
            continue
        if t.startswith('socket:['):
            inodes.add(t[8:-1])
    out = []
    for path, fam in (('/proc/net/tcp', 'v4'), ('/proc/net/tcp6', 'v6')):
        try:
            lines = open(path).read().splitlines()[1:]
        except OSError:
            continue
        for ln in lines:
            f = ln.split()
            if f[3] != '0A' or f[9] not in inodes:
                continue
            out.append([fam, int(f[1].rsplit(':', 1)[1], 16)])
    return sorted(out)

def accepts(eps):
    ok = []
    for fam, port in eps:
        s = socket.socket(socket.AF_INET if fam == 'v4' else socket.AF_INET6, socket.SOCK_STREAM)
        s.settimeout(1.0)
        try:
            s.connect((ADDR[fam], port))
            ok.append([fam, port])
        except OSError:
            pass
        finally:
            s.close()
    return ok

def unix_accepts(path):
    if not path:
        return False
    s = socket.socket(socket.AF_UNIX, socket.SOCK_STREAM)
    s.settimeout(1.0)
    try:
        s.connect(path)
        return True
    except OSError:
        return False
    finally:
        s.close()

from proxy import Proxy
args = ['--hostname', ADDR[cfg['hosts'][0]], '--num-acceptors', '1', '--num-workers', '1', '--log-level', 'CRITICAL']
for h in cfg['hosts'][1:]:
    args += ['--hostnames', ADDR[h]]
if not cfg['unix']:
    args += ['--port', str(cfg['port'])]
if cfg['ports']:
    args += ['--ports'] + [str(p) for p in cfg['ports']]
if cfg['unix']:
    args += ['--unix-socket-path', cfg['unixpath']]
if cfg['files']:
    args += ['--pid-file', cfg['pidfile'], '--port-file', cfg['portfile']]
args += {'local': ['--threadless'], 'remote': ['--threadless', '--local-executor', '0'], 'threaded': ['--threaded']}[cfg['mode']]
base = listening()
up = {'exc': '', 'listening': [], 'accepts': [], 'unixaccepts': False, 'primary': -1, 'ports': [], 'portfile': [], 'pidfileok': False}
down = {'exc': '', 'listening': [], 'accepts': [], 'unixaccepts': False, 'children': 0, 'pidfile': False, 'portfile': False, 'unixpath': False}
p = None
try:
    p = Proxy(args)
    p.setup()
    time.sleep(0.15)
    L = [e for e in listening() if e not in base]
    up['listening'] = L
    up['accepts'] = accepts(L)
    up['unixaccepts'] = unix_accepts(cfg['unixpath']) if cfg['unix'] else False
    up['primary'] = int(p.flags.port)
    up['ports'] = [int(x) for x in p.flags.ports]
    if cfg['files']:
        try:
            up['portfile'] = [int(x) for x in open(cfg['portfile']).read().split()]
        except Exception:
            up['portfile'] = []
        try:
            up['pidfileok'] = int(open(cfg['pidfile']).read().strip()) == os.getpid()
        except Exception:
            up['pidfileok'] = False
except BaseException as e:
    up['exc'] = repr(e)[:200]
try:
    if p is not None and p.acceptors is not None:
        p.shutdown()
        time.sleep(0.1)
except BaseException as e:
    down['exc'] = repr(e)[:200]
down['listening'] = [e for e in listening() if e not in base]
down['accepts'] = accepts(up['listening'])
down['unixaccepts'] = unix_accepts(cfg['unixpath']) if cfg['unix'] else False
down['children'] = len(multiprocessing.active_children())
down['pidfile'] = bool(cfg['files']) and os.path.exists(cfg['pidfile'])
down['portfile'] = bool(cfg['files']) and os.path.exists(cfg['portfile'])
down['unixpath'] = bool(cfg['unix']) and os.path.exists(cfg['unixpath'])
print('RESULT ' + json.dumps({'up': up, 'down': down}))
for c in multiprocessing.active_children():
    c.kill()
'''


def run_config(job):
    cfg, script = job
    try:
        out = subprocess.run(['/venv/bin/python', script, json.dumps(cfg)], stdout=subprocess.PIPE, stderr=subprocess.PIPE, timeout=90,
                             env=dict(os.environ, PYTHONPATH=REPO))
    except subprocess.TimeoutExpired:
        return cfg, None, 'timeout'
    for ln in out.stdout.decode().splitlines():
        if ln.startswith('RESULT '):
            return cfg, json.loads(ln[7:]), ''
    return cfg, None, out.stderr.decode()[-400:]


def configs(rnd, quick, tmp):
    out = []
    k = 0
    hostsets = [['v4'], ['v6'], ['v4', 'v6'], ['v6', 'v4']]
    portsets = [('f', []), ('f', ['f']), ('f', ['f', 'f']), ('f', ['f', 'f', 'f']), ('0', []), ('0', ['f']), ('0', ['0']), ('f', ['0']), ('f', ['0', 'f']),
                ('0', ['0', '0'])]
    for hosts, (pp, ps), unix, files, mode in itertools.product(hostsets, portsets, (False, True), (True, False), ('local', 'remote', 'threaded')):
        zero = pp == '0' or '0' in ps
        if zero and len(hosts) > 1:
            continue
        if unix and pp == '0':
            continue
        if quick and rnd.random() > 0.13:
            continue
        if not quick and rnd.random() > 0.6:
            continue
        k += 1
        base = 21000 + k * 8
        nxt = iter(range(base + 1, base + 8))
        cfg = {'hosts': hosts, 'port': base if pp == 'f' else 0, 'ports': [next(nxt) if x == 'f' else 0 for x in ps], 'unix': unix, 'files': files,
               'mode': mode, 'unixpath': os.path.join(tmp, 'u%d.sock' % k) if unix else '', 'pidfile': os.path.join(tmp, 'p%d.pid' % k),
               'portfile': os.path.join(tmp, 'p%d.port' % k)}
        out.append(cfg)
    return out


def run(chk):
    quick = chk.tier == 'quick'
    rnd = random.Random(chk.seed * 61 + 13)
    r = tlc.run('Lifecycle', 'Lifecycle.cfg', workers=8, timeout=600)
    chk.add_tlc('Lifecycle (configuration space x setup/shutdown steps, exhaustive)', r, exhaustive=True)
    chk.require_ok('Lifecycle', r)
    tmp = tempfile.mkdtemp(prefix='c19-')
    try:
        script = os.path.join(tmp, 'child.py')
        open(script, 'w').write(CHILD % {'repo': REPO})
        cfgs = configs(rnd, quick, tmp)
        from concurrent.futures import ThreadPoolExecutor
        with ThreadPoolExecutor(6) as ex:
            results = list(ex.map(run_config, [(c, script) for c in cfgs]))
    finally:
        import shutil
        shutil.rmtree(tmp, ignore_errors=True)
    cases, descs = [], {}
    for cfg, res, err in results:
        if res is None:
            raise MachineryError('configuration %s could not be observed: %s' % (cfg, err))
        cid = len(cases) + 1
        cases.append({'id': cid, 'cfg': {'hosts': cfg['hosts'], 'port': cfg['port'], 'ports': cfg['ports'], 'unix': cfg['unix'], 'files': cfg['files']},
                      'up': res['up'], 'down': res['down']})
        descs[cid] = {k: cfg[k] for k in ('hosts', 'port', 'ports', 'unix', 'files', 'mode')}
    results, rej = tlc.run_sharded('TraceLifecycle', 'TraceLifecycle.cfg', cases, shards=8, timeout=600)
    m = tlc.Merged(results)
    chk.add_tlc('TraceLifecycle (%d configurations started and stopped for real)' % len(cases), m)
    if m.status == 'failed':
        raise MachineryError('TraceLifecycle: ' + m.brief())
    chk.traces(len(cases))
    byid = {c['id']: c for c in cases}
    for cid, clause in rej:
        d, c = descs[cid], byid[cid]
        import re
        sig = {'clause': re.sub(r'[\d{}<>", ]+', ' ', clause.split(':')[0]).strip()[:90], 'additional_ports': len(d['ports']) > 0, 'unix': d['unix']}
        chk.violation(sig, 'configuration %s: %s' % (d, clause), {'configuration': d, 'up': c['up'], 'down': c['down']})
    chk.cov['configurations'] = len(cases)
    chk.cov['modes'] = sorted({d['mode'] for d in descs.values()})
    chk.sample({'configuration': descs[1], 'up': cases[0]['up'], 'down': cases[0]['down']})
    chk.assume('loopback addresses 127.0.0.1 and ::1; one acceptor and one worker per configuration',
               'OS-assigned ports only together with a single listening address (as the property quantifies)',
               'each configuration runs in its own child process of the check (the embedding process of the Proxy object)')


if __name__ == '__main__':
    main(run, 'C19')
