"""C17 - threaded, local-threadless and remote-threadless modes behave identically.

(S) spec/Dispatch.tla: the hand-off that differs between the modes (address + descriptor over the worker's pipe, from
    several senders); TLC: PairsMatch and AllHandedOver hold with the per-worker lock, PairsMatch fails without it (guard).
(a) the REAL delegate_work_to_pool is called with a recording lock / pipe / send_handle; TLC (TraceModes, kind delegate)
    checks that both messages are sent while the lock is held, address first.
(b) RealNet differential: REAL proxy processes (python -m proxy) in the three modes x {1,2,(4)} acceptors/workers serve the
    same scenario corpus (forward GET / POST / chunked / keep-alive, CONNECT tunnel, failing upstreams, rejected and
    unauthenticated requests, web 404, reverse proxy, large transfer, half-close, truncated request), sequentially and with
    concurrent clients; per-connection transcripts are attributed by a tag and compared ACROSS MODES by TLC (kind modes).
"""
import base64
import random
import threading

from harness import tlc, realnet
from harness.common import main, MachineryError


class RecLock:
    def __init__(self, log):
        self.log = log

    def __enter__(self):
        self.log.append('acquire')

    def __exit__(self, *a):
        self.log.append('release')

    def acquire(self, *a, **k):
        self.log.append('acquire')
        return True

    def release(self):
        self.log.append('release')


class RecPipe:
    def __init__(self, log):
        self.log = log

    def send(self, obj):
        self.log.append('send_addr')

    def fileno(self):
        return 0


class FakeConn:
    def __init__(self, log):
        self.log = log

    def fileno(self):
        return 7

    def close(self):
        self.log.append('close')


def delegate_cases():
    import proxy.core.work.delegate as D
    out = []
    for unix in (None, '/tmp/x.sock'):
        log = []
        orig = D.send_handle
        D.send_handle = lambda q, fd, pid: log.append('send_handle')
        try:
            D.delegate_work_to_pool(4242, RecPipe(log), RecLock(log), FakeConn(log), ('192.0.2.1', 5555), unix_socket_path=unix)
        except Exception as e:     # noqa
            log.append('raised:' + type(e).__name__)
        finally:
            D.send_handle = orig
        out.append({'kind': 'delegate', 'events': log, 'expectaddr': unix is None})
    return out


def scripts(pa, pb, ptun, pclosed, auth, thorough=False):
    """-> list of (name, function(tag) -> steps)"""
    cred = (b'Proxy-Authorization: Basic ' + base64.b64encode(b'u:p') + b'\r\n') if auth else b''
    H = lambda p: b'127.0.0.1:%d' % p      # noqa
    big = b'x' * 30000

    def fwd(method, port, path, body=b'', extra=b'', chunked=False):
        def mk(tag):
            t = b'http://' + H(port) + path + b'?t=' + tag
            if chunked:
                payload = b'%x\r\n' % len(body) + body + b'\r\n0\r\n\r\n'
                return method + b' ' + t + b' HTTP/1.1\r\nHost: ' + H(port) + b'\r\n' + cred + extra + b'Transfer-Encoding: chunked\r\n\r\n' + payload
            cl = b'Content-Length: %d\r\n' % len(body) if body else b''
            return method + b' ' + t + b' HTTP/1.1\r\nHost: ' + H(port) + b'\r\n' + cred + extra + cl + b'\r\n' + body
        return mk
    S = []
    S.append(('forward GET', lambda tag: [('send', fwd(b'GET', pa, b'/g')(tag)), ('read',), ('close',)]))
    S.append(('forward POST 30k', lambda tag: [('send', fwd(b'POST', pa, b'/p', big)(tag)), ('read',), ('close',)]))
    S.append(('forward chunked POST', lambda tag: [('send', fwd(b'POST', pa, b'/c', b'chunk-body', chunked=True)(tag)), ('read',), ('close',)]))
    S.append(('forward keep-alive x2', lambda tag: [('send', fwd(b'GET', pa, b'/k1')(tag)), ('read',), ('send', fwd(b'GET', pa, b'/k2')(tag)), ('read',), ('close',)]))
    S.append(('forward request in two segments', lambda tag: [('send', fwd(b'GET', pb, b'/s')(tag)[:25]), ('sleep', 0.1), ('send', fwd(b'GET', pb, b'/s')(tag)[25:]), ('read',), ('close',)]))
    S.append(('forward big response', lambda tag: [('send', fwd(b'GET', pa, b'/big')(tag)), ('read',), ('close',)]))
    S.append(('forward to closed port', lambda tag: [('send', fwd(b'GET', pclosed, b'/x')(tag)), ('read',), ('read',), ('close',)]))
    S.append(('connect tunnel', lambda tag: [('send', b'CONNECT ' + H(ptun) + b' HTTP/1.1\r\nHost: ' + H(ptun) + b'\r\n' + cred + b'\r\n'), ('read',),
                                             ('send', b'tunnel-' + tag + b'-hello'), ('read',), ('send', b'more-' + tag), ('read',), ('close',)]))
    S.append(('connect to closed port', lambda tag: [('send', b'CONNECT ' + H(pclosed) + b' HTTP/1.1\r\nHost: x\r\n' + cred + b'\r\n'), ('read',), ('read',), ('close',)]))
    S.append(('bad request line', lambda tag: [('send', b'GET\r\n\r\n'), ('read',), ('read',), ('close',)]))
    S.append(('unknown scheme', lambda tag: [('send', b'GET ftp://h/x HTTP/1.1\r\nHost: h\r\n' + cred + b'\r\n'), ('read',), ('read',), ('close',)]))
    S.append(('web 404', lambda tag: [('send', b'GET /nothing-' + tag + b' HTTP/1.1\r\nHost: w\r\n\r\n'), ('read',), ('read',), ('close',)]))
    S.append(('reverse proxy', lambda tag: [('send', b'GET /a/' + tag + b' HTTP/1.1\r\nHost: front\r\nX-Tag: ' + tag + b'\r\n\r\n'), ('read',), ('close',)]))
    S.append(('reverse proxy keep-alive x2', lambda tag: [('send', b'GET /b/1' + tag + b' HTTP/1.1\r\nHost: front\r\nX-Tag: ' + tag + b'\r\n\r\n'), ('read',),
                                                          ('send', b'GET /b/2' + tag + b' HTTP/1.1\r\nHost: front\r\nX-Tag: ' + tag + b'\r\n\r\n'), ('read',), ('close',)]))
    S.append(('static file 300 KiB', lambda tag: [('send', b'GET /big.bin?t=' + tag + b' HTTP/1.1\r\nHost: w\r\n\r\n'), ('read',), ('read',), ('close',)]))
    S.append(('static file small', lambda tag: [('send', b'GET /small.txt?t=' + tag + b' HTTP/1.1\r\nHost: w\r\n\r\n'), ('read',), ('read',), ('close',)]))
    # (no "half-close right after the request" conversation: whether the answer or the client's FIN reaches the proxy first is
    #  a race between the client and the origin in every mode - see F20a - and under load it falls differently per run)
    S.append(('half-close after the response', lambda tag: [('send', fwd(b'GET', pb, b'/h')(tag)), ('read',), ('shut',), ('read',), ('close',)]))
    S.append(('truncated request then close', lambda tag: [('send', fwd(b'POST', pa, b'/t', b'0123456789')(tag)[:-4]), ('sleep', 0.2), ('close',)]))
    huge = bytes((i * 131 + i // 977) % 251 for i in range(1 << 20))
    S.append(('forward POST 1 MiB', lambda tag: [('send', fwd(b'POST', pa, b'/p1m', huge)(tag)), ('read',), ('close',)]))
    S.append(('connect tunnel 1 MiB each way', lambda tag: [('send', b'CONNECT ' + H(ptun) + b' HTTP/1.1\r\nHost: ' + H(ptun) + b'\r\n' + cred + b'\r\n'), ('read',),
                                                            ('send', b'big-' + tag + b'-' + huge), ('read',), ('close',)]))
    S.append(('two requests in one segment', lambda tag: [('send', fwd(b'POST', pa, b'/q1', b'first-body')(tag) + fwd(b'POST', pa, b'/q2', b'second')(tag)),
                                                          ('read',), ('read',), ('close',)]))
    if thorough:
        S.append(('idle connection is reaped', lambda tag: [('send', fwd(b'GET', pb, b'/idle')(tag)), ('read',), ('sleep', 7.5), ('read',), ('close',)]))
    if auth:
        S.append(('no credentials', lambda tag: [('send', b'GET http://' + H(pa) + b'/n?t=' + tag + b' HTTP/1.1\r\nHost: x\r\n\r\n'), ('read',), ('read',), ('close',)]))
        S.append(('wrong credentials', lambda tag: [('send', b'GET http://' + H(pa) + b'/w?t=' + tag + b' HTTP/1.1\r\nHost: x\r\nProxy-Authorization: Basic AAAA\r\n\r\n'),
                                                    ('read',), ('read',), ('close',)]))
    return S


STATIC_DIR = {'path': ''}
THOROUGH = {'on': False}


def origin_behaviour_http(label):
    return None


def run_mode(mode, nacc, nwork, auth, origins, plan, out):
    oa, ob, otun, pclosed = origins
    extra = ['--enable-web-server', '--enable-reverse-proxy', '--plugins', 'harness.realplugins.RevToOrigin', '--timeout', '5',
             '--enable-static-server', '--static-server-dir', STATIC_DIR['path']]
    if auth:
        extra += ['--basic-auth', 'u:p']
    try:
        px = realnet.ProxyProc(mode, extra=extra, acceptors=nacc, workers=nwork,
                               env={'VERIF_ORIGIN_A': str(oa.port), 'VERIF_ORIGIN_B': str(ob.port)})
    except Exception as e:     # noqa
        out[mode] = ('error', repr(e))
        return
    res = {}
    try:
        S = dict(scripts(oa.port, ob.port, otun.port, pclosed, auth, THOROUGH['on']))
        # warm-up: every acceptor / worker has served something before the measured conversations start
        for _ in range(2 * max(nacc, nwork) + 2):
            realnet.converse(px.port, [('send', b'GET /warm-up HTTP/1.1\r\nHost: w\r\n\r\n'), ('read',), ('close',)])
        for phase in plan:
            if len(phase) == 1:
                name, tag = phase[0]
                res[tag] = realnet.converse(px.port, S[name](tag.encode()))
            else:
                ths = []
                for name, tag in phase:
                    def work(name=name, tag=tag):
                        try:
                            res[tag] = realnet.converse(px.port, S[name](tag.encode()))
                        except Exception as e:     # noqa
                            res[tag] = {'cgot': b'', 'ceof': False, 'events': ['client-error:' + type(e).__name__]}
                    t = threading.Thread(target=work)
                    t.start()
                    ths.append(t)
                for t in ths:
                    t.join(60)
        out[mode] = ('ok', res)
    except Exception as e:     # noqa
        out[mode] = ('error', repr(e))
    finally:
        px.stop()


def mask_gzip_mtime(raw):
    """The gzip member header carries the wall-clock second of compression (MTIME, bytes 4..7): not behaviour, masked."""
    head, sep, body = raw.partition(b'\r\n\r\n')
    if sep and b'content-encoding: gzip' in head.lower() and body[:2] == b'\x1f\x8b' and len(body) >= 8:
        return head + sep + body[:4] + b'\0\0\0\0' + body[8:]
    return raw


def big_origin(label):
    def beh(idx, got):
        return None
    return beh


def run(chk):
    quick = chk.tier == 'quick'
    THOROUGH['on'] = not quick
    rnd = random.Random(chk.seed * 67 + 15)
    # ---- design ------------------------------------------------------------------------------------------------------
    for locked in (True, False):
        r = tlc.run('Dispatch', 'Dispatch.cfg', constants={'Senders': '{"t1","t2","t3"}', 'LOCKED': 'TRUE' if locked else 'FALSE'}, workers=8, timeout=300)
        chk.add_tlc('Dispatch 3 senders LOCKED=%s (exhaustive)' % locked, r, exhaustive=True)
        if locked:
            chk.require_ok('Dispatch', r)
        elif r.status != 'violated':
            raise MachineryError('Dispatch LOCKED=FALSE is expected to violate PairsMatch (vacuity guard):\n' + r.brief())
    cases = delegate_cases()
    # ---- RealNet differential ------------------------------------------------------------------------------------------
    import re

    class BigOrigin(realnet.Origin):
        pass
    oa, ob = realnet.Origin(b'A'), realnet.Origin(b'B')
    # /big: a large response; implemented by a behaviour wrapper on origin A
    def beh_a(idx, got, state={}):
        n = state.setdefault(idx, 0)
        reqs = got.count(b'\r\n\r\n')
        out = b''
        raw = got
        k = 0
        while raw:
            head, sep, rest = raw.partition(b'\r\n\r\n')
            if not sep:
                break
            m = re.search(rb'(?im)^content-length:\s*(\d+)', head)
            te = re.search(rb'(?im)^transfer-encoding:\s*chunked', head)
            if te:
                end = rest.find(b'0\r\n\r\n')
                if end < 0:
                    break
                body, rest2 = rest[:end + 5], rest[end + 5:]
            else:
                cl = int(m.group(1)) if m else 0
                if len(rest) < cl:
                    break
                body, rest2 = rest[:cl], rest[cl:]
            k += 1
            if k > n:
                path = head.split(b' ')[1] if head.count(b' ') >= 2 else b'?'
                if b'/big' in path:
                    payload = (b'0123456789abcdef' * 4096) * 32        # 2 MiB
                else:
                    payload = b'A:' + path + b':' + body[:40]
                out += b'HTTP/1.1 200 OK\r\nContent-Length: %d\r\nX-Origin: A\r\n\r\n' % len(payload) + payload
            raw = rest2
        state[idx] = max(n, k)
        return out or None
    oa.behaviour = beh_a
    otun = realnet.Origin(b'T', behaviour=lambda idx, got: None)
    sent = {}

    def beh_t(idx, got):
        n = sent.get(idx, 0)
        sent[idx] = len(got)
        return got[n:].upper() if len(got) > n else None
    otun.behaviour = beh_t
    import socket
    s = socket.socket()
    s.bind(('127.0.0.1', 0))
    pclosed = s.getsockname()[1]
    s.close()
    import os
    import shutil
    import tempfile
    STATIC_DIR['path'] = tempfile.mkdtemp(prefix='c17-static-')
    r2 = random.Random(7)
    open(os.path.join(STATIC_DIR['path'], 'big.bin'), 'wb').write(bytes(r2.getrandbits(8) for _ in range(300 * 1024)))     # incompressible
    open(os.path.join(STATIC_DIR['path'], 'small.txt'), 'wb').write(b'a small static file\n')
    try:
        combos = [(1, 1, False), (2, 2, True)] if quick else [(1, 1, False), (2, 2, True), (4, 4, False), (1, 2, True), (2, 1, False)]
        tagn = [0]
        for nacc, nwork, auth in combos:
            names = [n for n, _ in scripts(1, 1, 1, 1, auth, not quick)]
            plan = []
            for n in names:
                tagn[0] += 1
                plan.append([(n, 'T%04d' % tagn[0])])
            for _ in range(2 if quick else 5):
                grp = []
                for n in rnd.sample(names, min(len(names), 6 if quick else 8)):
                    tagn[0] += 1
                    grp.append((n, 'T%04d' % tagn[0]))
                plan.append(grp)
            out = {}
            ths = [threading.Thread(target=run_mode, args=(m, nacc, nwork, auth, (oa, ob, otun, pclosed), plan, out)) for m in ('threaded', 'local', 'remote')]
            for t in ths:
                t.start()
            for t in ths:
                t.join(600)
            for m in ('threaded', 'local', 'remote'):
                if m not in out or out[m][0] != 'ok':
                    raise MachineryError('mode %s (acceptors %d, workers %d) could not be driven: %s' % (m, nacc, nwork, out.get(m)))
            # upstream transcripts are attributed to scripts by tag; origins are shared, so split per mode is impossible:
            # the comparison of upstream bytes is therefore done per (tag, mode) through the Via-less body the origin saw
            for phase in plan:
                for name, tag in phase:
                    rec = {}
                    for m in ('threaded', 'local', 'remote'):
                        r_ = dict(out[m][1].get(tag, {'cgot': b'', 'ceof': False, 'events': ['missing']}))
                        r_['cgot'] = mask_gzip_mtime(r_['cgot'])
                        rec[m] = [{'cgot': list(r_['cgot'][:6000]) + [len(r_['cgot'])], 'ceof': r_['ceof'], 'ugot': [], 'events': r_['events']}]
                    cases.append({'kind': 'modes', 't': rec, 'desc': {'script': name, 'tag': tag, 'acceptors': nacc, 'workers': nwork, 'auth': auth,
                                                                      'concurrent_with': len(phase) - 1}})
        # what the origins received, per tag: every tag must have reached the origins the same number of times with the same bytes
        per_tag = {}
        for o in (oa, ob, otun):
            for c in o.transcript():
                for t in set(re.findall(rb'T\d{4}', c['got'])):
                    per_tag.setdefault(t.decode(), []).append(c['got'])
    finally:
        for o in (oa, ob, otun):
            o.stop()
        shutil.rmtree(STATIC_DIR['path'], ignore_errors=True)
    for c in cases:
        if c['kind'] == 'modes':
            # three proxies served the same tag: the origin must have seen it in exactly 3 identical connections (or 0)
            seen = sorted(per_tag.get(c['desc']['tag'], []))
            same = len(seen) in (0, 3) and len(set(seen)) <= 1
            for m in ('threaded', 'local', 'remote'):
                c['t'][m][0]['ugot'] = [] if same else [list(x[:300]) for x in seen]
            if not same:
                # make the difference visible to the trace specification: attribute nothing to one mode
                c['t']['remote'][0]['ugot'] = [[0]]
    for n, c in enumerate(cases):
        c['id'] = n + 1
    descs = {c['id']: c.pop('desc', {'delegate': True}) for c in cases}
    results, rej = tlc.run_sharded('TraceModes', 'TraceModes.cfg', cases, shards=8, timeout=900)
    m = tlc.Merged(results)
    chk.add_tlc('TraceModes (%d delegate call logs, %d conversations x 3 modes)' % (len([c for c in cases if c['kind'] == 'delegate']),
                                                                                    len([c for c in cases if c['kind'] == 'modes'])), m)
    if m.status == 'failed':
        raise MachineryError('TraceModes: ' + m.brief())
    chk.traces(len(cases))
    byid = {c['id']: c for c in cases}
    for cid, clause in rej:
        d = descs[cid]
        c = byid[cid]
        sig = {'clause': clause.split(' on connection')[0][:90], 'script': d.get('script', 'delegate'), 'concurrent': d.get('concurrent_with', 0) > 0}
        rep = {'case': d}
        if c['kind'] == 'modes':
            rep['client_got'] = {mm: bytes(c['t'][mm][0]['cgot'][:-1][:300]).decode('latin1') for mm in c['t']}
            rep['client_eof'] = {mm: c['t'][mm][0]['ceof'] for mm in c['t']}
            rep['client_got_total_bytes'] = {mm: c['t'][mm][0]['cgot'][-1] for mm in c['t']}
        else:
            rep['events'] = c['events']
        chk.violation(sig, '%s: %s' % (d, clause), rep)
    chk.cov['conversations'] = len([c for c in cases if c['kind'] == 'modes'])
    chk.sample({'delegate_call_log': cases[0]['events']})
    chk.sample({'conversation': descs[len(cases)], 'client_got_first_bytes': bytes(cases[-1]['t']['local'][0]['cgot'][:-1][:120]).decode('latin1')})
    chk.assume('reads are "until the peer has been quiet for 0.5 s": a mode that is slower than that on loopback shows up as a difference',
               'OS scheduling beyond what concurrent clients provoke is not explored; the hand-off race itself is decided on the model and by '
               'the lock discipline of the recorded delegate call',
               'origins are shared between the three proxies; what each mode sent upstream is compared through the origin transcripts by tag')


if __name__ == '__main__':
    main(run, 'C17')
