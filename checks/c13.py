"""C13 - the static file server never serves anything outside its directory.

(S) spec/StaticPath.tla: reference resolution of a request path under the root (query stripped at the first '?',
    dot-segment stack machine, no percent-decoding); spec/TraceStatic.tla: the clauses.
(R) every path of up to N segments over {file and directory names, '.', '..', '', '%2e%2e', '..%2f', the name of a
    sibling of the root with the root's name as prefix} x query variants x trailing slash is requested through the REAL
    handler + HttpWebServerPlugin (SimNet) against a real tree on disk with files inside, in a sub-directory and just
    outside the root; gzip is undone by the harness when advertised.
(V) TLC resolves each path with the reference and decides.
"""
import gzip
import itertools
import os
import random
import shutil
import tempfile

from harness import tlc, scen
from harness.common import main, MachineryError

INSIDE = {('index.html',): b'<html>index</html>', ('f.txt',): b'small file\n', ('big.txt',): b'B' * 50 + b'ig text file, long enough to be compressed\n',
          ('sub', 'g.txt'): b'file g in sub\n', ('sub', 'h.html'): b'<p>' + b'h' * 60 + b'</p>', ('f.txt?x',): b'a file whose NAME contains a question mark\n',
          ('sub', 'deep', 'k.txt'): b'deep k\n'}
OUTSIDE = {('secret.txt',): b'SECRET outside the root\n', ('root-evil', 'x.txt'): b'sibling directory with the root name as prefix, ' + b'x' * 30 + b'\n',
           ('root-evil', 'f.txt'): b'evil twin of f.txt\n'}


def make_tree():
    top = tempfile.mkdtemp(prefix='c13-')
    root = os.path.join(top, 'root')
    for segs, content in INSIDE.items():
        p = os.path.join(root, *segs)
        os.makedirs(os.path.dirname(p), exist_ok=True)
        open(p, 'wb').write(content)
    for segs, content in OUTSIDE.items():
        p = os.path.join(top, *segs)
        os.makedirs(os.path.dirname(p), exist_ok=True)
        open(p, 'wb').write(content)
    return top, root


def paths(rnd, quick):
    alpha = [b'f.txt', b'big.txt', b'sub', b'g.txt', b'deep', b'k.txt', b'.', b'..', b'', b'%2e%2e', b'..%2f', b'secret.txt', b'root-evil', b'x.txt',
             b'index.html', b'nosuch']
    queries = [b'', b'?x', b'?/../secret.txt', b'?a=1?b=2', b'?x?y', b'?']
    out = []
    nmax = 3 if quick else 4
    for n in range(1, nmax + 1):
        for segs in itertools.product(alpha, repeat=n):
            if segs[0] == b'':
                continue            # '//x' is a network-path reference for the implementation's URL parser (ambiguous, not generated)
            if n >= 3 and quick and rnd.random() > 0.22:
                continue
            if n == 4 and rnd.random() > 0.12:
                continue
            q = queries[rnd.randrange(len(queries))] if rnd.random() < .5 else b''
            trail = b'/' if rnd.random() < .1 else b''
            out.append(b'/' + b'/'.join(segs) + trail + q)
    # the plain files under every query variant, and a handful of hand-written classics
    for segs in INSIDE:
        if b'?' in '/'.join(segs).encode():
            continue
        for q in queries:
            out.append(b'/' + '/'.join(segs).encode() + q)
    out += [b'/../secret.txt', b'/sub/../../secret.txt', b'/sub/deep/../../../secret.txt', b'/./f.txt', b'/sub//g.txt', b'/sub/./g.txt',
            b'/sub/../f.txt', b'/../root-evil/x.txt', b'/..', b'/../', b'/...', b'/%2e%2e/secret.txt', b'/..%2fsecret.txt',
            b'/sub/..%2f..%2fsecret.txt', b'/f.txt/../f.txt', b'/f.txt?x', b'/f.txt?x?y', b'/f.txt%3Fx', b'/', b'/sub', b'/sub/']
    return out


def run(chk):
    quick = chk.tier == 'quick'
    rnd = random.Random(chk.seed * 47 + 7)
    top, root = make_tree()
    try:
        args = ['--enable-web-server', '--enable-static-server', '--static-server-dir', root]
        cases, descs = [], {}
        tree = [{'segs': [list(s.encode()) for s in segs], 'content': list(c)} for segs, c in INSIDE.items()]
        outside = [list(c) for c in OUTSIDE.values()]
        plainnames = {s.encode() for segs in INSIDE for s in segs if '?' not in s}
        for path in paths(rnd, quick):
            conv = scen.Conversation(args=args)
            conv.client()
            raw = b'GET ' + path + b' HTTP/1.1\r\nHost: s\r\n\r\n'
            for piece in scen.pieces(raw, rnd, rnd.choice(['one', 'one', 'two'])):
                conv.step(('c', piece))
            got = conv.transcript()['clients'][0]['got']
            head, _, body = got.partition(b'\r\n\r\n')
            status = head.split(b' ')[1] if head.count(b' ') else b''
            gz = b'content-encoding: gzip' in head.lower()
            undec, plain = False, body
            if gz:
                try:
                    plain = gzip.decompress(body)
                except Exception:
                    undec, plain = True, b''
            segs = [s for s in path.split(b'?', 1)[0].split(b'/') if s]
            must = bool(segs) and all(s in plainnames for s in segs) and tuple(s.decode() for s in segs) in INSIDE and not path.split(b'?', 1)[0].endswith(b'/')
            cid = len(cases) + 1
            cases.append({'id': cid, 'path': list(path), 'status': list(status), 'plain': list(plain), 'undecodable': undec, 'mustserve': must})
            descs[cid] = {'path': path.decode('latin1'), 'status': status.decode('latin1'), 'gzip': gz, 'body_bytes': len(body)}
        shared = {'tree': tree, 'outside': outside}
        for c in cases:
            c.update(shared)
        results, rej = tlc.run_sharded('TraceStatic', 'TraceStatic.cfg', cases, shards=16, timeout=1200)
        m = tlc.Merged(results)
        chk.add_tlc('TraceStatic (%d request paths)' % len(cases), m)
        if m.status == 'failed':
            raise MachineryError('TraceStatic: ' + m.brief())
        chk.traces(len(cases))
        for cid, clause in rej:
            d = descs[cid]
            p = d['path']
            sig = {'clause': clause, 'dotdot': '..' in p.split('?')[0], 'query': '?' in p}
            chk.violation(sig, 'GET %s -> %s: %s' % (p, d['status'], clause), {'case': d})
        st = {}
        for d in descs.values():
            st[d['status']] = st.get(d['status'], 0) + 1
        chk.cov['status_counts'] = st
        chk.cov['served_compressed'] = sum(1 for d in descs.values() if d['gzip'])
        chk.sample({'path': descs[1]['path'], 'status': descs[1]['status']})
        chk.sample({'path': descs[len(cases)]['path'], 'status': descs[len(cases)]['status']})
        chk.assume('symbolic links inside the root are not part of the property', 'gzip inflation by CPython zlib (trusted)',
                   'paths that leave the root and come back through the root directory\'s own name are not generated (ambiguous)',
                   'percent-sequences are not decoded by the server, so they are ordinary names for the reference as well')
    finally:
        shutil.rmtree(top, ignore_errors=True)


if __name__ == '__main__':
    main(run, 'C13')
