"""C16 - WebSocket frames round-trip for every size and flag combination; accept token = RFC formula.

Spec: spec/WsCodec.tla (RFC 6455 encoder/decoder), spec/Sha1.tla (+ TraceSha1 state machine).
Bind: every case is executed on the real WebsocketFrame (build, then parse of build \\o trailing bytes,
on fresh and on reused frame objects as the web server reuses them); the recorded outputs are the
trace; TLC (TraceWs / TraceSha1) decides each case and names the failing clause.
"""
import base64
import itertools
import os
import random

from harness import tlc
from harness.common import main, MachineryError

SMALL = list(range(0, 131))
EDGE = list(range(65530, 65541))


def pat(n, salt):
    return bytes((i * 7 + salt * 31 + (i // 251)) % 256 for i in range(1, n + 1))


def cases(tier, rnd):
    combos = [(fin, r1, r2, r3, op, m) for fin in (0, 1) for r1 in (0, 1) for r2 in (0, 1) for r3 in (0, 1)
              for op in range(16) for m in (0, 1)]
    out = []

    def add(c, n, trail, key='given', reuse=False):
        fin, r1, r2, r3, op, m = c
        k = []
        if m and key == 'given':
            k = [rnd.randrange(256) for _ in range(4)]
        elif m and key == 'zero':
            k = [0, 0, 0, 0]
        out.append({'id': len(out) + 1, 'fin': bool(fin), 'rsv1': bool(r1), 'rsv2': bool(r2), 'rsv3': bool(r3),
                    'opcode': op, 'masked': bool(m), 'key': k, 'n': n, 'salt': rnd.randrange(256),
                    'trail': trail, 'reuse': reuse})
    trails = [[], [0x81], [0x81, 0x02, 0x68, 0x69], [0xff] * 3]
    if tier == 'quick':
        for c in combos:                                   # every flag/opcode/mask combination at the thresholds
            for n in (0, 1, 125, 126, 127):
                add(c, n, trails[(n + c[4]) % 4])
        for n in SMALL:                                    # every small length, sampled combinations
            for c in rnd.sample(combos, 6):
                add(c, n, rnd.choice(trails), key=rnd.choice(['given', 'random', 'zero']), reuse=rnd.random() < .5)
        for n in (65535, 65536, 65537, 65540):
            for c in rnd.sample(combos, 3):
                add(c, n, rnd.choice(trails), key=rnd.choice(['given', 'random']), reuse=rnd.random() < .5)
    else:
        for c in combos:                                   # the full product over the small lengths
            for n in SMALL:
                add(c, n, trails[(n + c[4] + c[5]) % 4], key=('given', 'random', 'zero')[(n + c[4]) % 3],
                    reuse=(n + c[0]) % 2 == 0)
        for n in EDGE:
            for c in rnd.sample(combos, 12):
                add(c, n, rnd.choice(trails), key=rnd.choice(['given', 'random']), reuse=rnd.random() < .5)
        for n in (70000, 131072, 200001, 1 << 20):
            for c in rnd.sample(combos, 2):
                add(c, n, rnd.choice(trails), key=rnd.choice(['given', 'random']))
    return out


def execute(cs):
    from proxy.http.websocket.frame import WebsocketFrame
    shared_b, shared_p = WebsocketFrame(), WebsocketFrame()
    for c in cs:
        payload = pat(c['n'], c['salt'])
        c.update({'exc': '', 'built': [], 'p': {'fin': False, 'rsv1': False, 'rsv2': False, 'rsv3': False, 'opcode': 0,
                                                 'masked': False, 'len': 0, 'mask': [], 'data': []}, 'rest': []})
        try:
            if c['reuse']:
                f = shared_b
                f.reset()
            else:
                f = WebsocketFrame()
            f.fin, f.rsv1, f.rsv2, f.rsv3 = c['fin'], c['rsv1'], c['rsv2'], c['rsv3']
            f.opcode, f.masked = c['opcode'], c['masked']
            f.mask = bytes(c['key']) if c['masked'] and c['key'] else None
            f.data = payload
            built = f.build()
            c['built'] = list(built)
            if c['reuse']:
                g = shared_p
                g.reset()
            else:
                g = WebsocketFrame()
            rest = g.parse(built + bytes(c['trail']))
            c['p'] = {'fin': bool(g.fin), 'rsv1': bool(g.rsv1), 'rsv2': bool(g.rsv2), 'rsv3': bool(g.rsv3),
                      'opcode': int(g.opcode), 'masked': bool(g.masked),
                      'len': -1 if g.payload_length is None else int(g.payload_length),
                      'mask': list(g.mask or b''), 'data': list(g.data or b'')}
            c['rest'] = list(rest)
        except Exception as e:      # the property says build/parse work for every case: a raise is a verdict, not a crash
            c['exc'] = '%s: %s' % (type(e).__name__, str(e)[:80])
    return cs


def accept_pairs(tier, rnd):
    from proxy.http.websocket.frame import WebsocketFrame
    keys = [b'dGhlIHNhbXBsZSBub25jZQ==']
    n = 24 if tier == 'quick' else 96
    for i in range(n):
        keys.append(base64.b64encode(bytes(rnd.randrange(256) for _ in range(16))))
    for ln in (0, 1, 19, 20, 27, 28, 55, 56, 64, 91, 92):      # padding / block boundaries of key + 36-byte GUID
        keys.append(bytes(rnd.choice(b'ABCDEFGHIJKLMNOPQRSTUVWXYZabcdefghijklmnopqrstuvwxyz0123456789+/') for _ in range(ln)))
    pairs = [{'id': 0, 'key': list(b'dGhlIHNhbXBsZSBub25jZQ=='), 'accept': list(b's3pPLMBiTxaQ9kYGzzhZRbK+xOo=')}]
    for i, k in enumerate(keys):
        try:
            acc = WebsocketFrame.key_to_accept(k)
        except Exception as e:
            acc = b'raised ' + type(e).__name__.encode()
        pairs.append({'id': i + 1, 'key': list(k), 'accept': list(acc)})
    return pairs


def live(tier, rnd, first_id):
    """The codec as the web server uses it: a WebSocket route on the REAL web server (SimNet): upgrade handshake, then masked client
    frames (one or several per segment); the plugin echoes each frame.  -> (frame cases for TraceWs, accept pairs for TraceSha1)"""
    import re
    from harness import scen, testplugins
    from proxy.http.websocket.frame import WebsocketFrame
    sizes = [0, 1, 2, 125, 126, 127, 1000, 20000, 60000] if tier == 'quick' else [0, 1, 2, 3, 124, 125, 126, 127, 128, 1000, 4096, 20000, 60000, 65000]
    cases, pairs = [], []
    for conn in range(3 if tier == 'quick' else 10):
        conv = scen.Conversation(args=['--enable-web-server', '--client-recvbuf-size', str(1 << 20)], flag_opts={'plugins': [testplugins.ws_echo_plugin()]})
        c = conv.client()
        key = base64.b64encode(bytes(rnd.randrange(256) for _ in range(16)))
        conv.step(('c', b'GET /ws HTTP/1.1\r\nHost: w\r\nUpgrade: websocket\r\nConnection: Upgrade\r\nSec-WebSocket-Key: ' + key +
                   b'\r\nSec-WebSocket-Version: 13\r\n\r\n'))
        head = bytes(c.got)
        m = re.search(rb'(?im)^sec-websocket-accept:[ \t]*([^\r\n]*)', head)
        pairs.append({'id': first_id['pair'] + len(pairs), 'key': list(key),
                      'accept': list(m.group(1).strip() if m and head.startswith(b'HTTP/1.1 101') else b'no 101 upgrade response: ' + head[:60])})
        if not (m and head.startswith(b'HTTP/1.1 101')):
            continue
        todo = [(op, n) for n in sizes for op in ((1, 2) if n % 2 == 0 else (2,))]
        rnd.shuffle(todo)
        while todo and not c.eof_seen:
            group = [todo.pop() for _ in range(min(len(todo), rnd.choice([1, 1, 2, 3])))]       # frames sharing one segment
            seg, metas = b'', []
            for op, n in group:
                salt = rnd.randrange(256)
                f = WebsocketFrame()
                f.fin, f.opcode, f.masked, f.mask, f.data = True, op, True, bytes(rnd.randrange(256) for _ in range(4)), pat(n, salt)
                seg += f.build()
                metas.append((op, n, salt))
            before = len(c.got)
            conv.step(('c', seg))
            echo = bytes(c.got)[before:]
            for op, n, salt in metas:
                case = {'id': first_id['case'] + len(cases), 'fin': True, 'rsv1': False, 'rsv2': False, 'rsv3': False, 'opcode': op, 'masked': False,
                        'key': [], 'n': n, 'salt': salt, 'trail': [], 'exc': '', 'live': True, 'built': [], 'rest': [],
                        'p': {'fin': False, 'rsv1': False, 'rsv2': False, 'rsv3': False, 'opcode': 0, 'masked': False, 'len': 0, 'mask': [], 'data': []}}
                try:
                    g = WebsocketFrame()
                    rest = g.parse(echo) if echo else b''
                    if not echo:
                        raise ValueError('the server sent nothing back for this frame')
                    used = len(echo) - len(rest)
                    case['built'] = list(echo[:used])
                    case['p'] = {'fin': bool(g.fin), 'rsv1': bool(g.rsv1), 'rsv2': bool(g.rsv2), 'rsv3': bool(g.rsv3), 'opcode': int(g.opcode),
                                 'masked': bool(g.masked), 'len': -1 if g.payload_length is None else int(g.payload_length),
                                 'mask': list(g.mask or b''), 'data': list(g.data or b'')}
                    echo = rest
                except Exception as e:     # noqa
                    case['exc'] = '%s: %s' % (type(e).__name__, str(e)[:80])
                    echo = b''
                cases.append(case)
    return cases, pairs


def run(chk):
    rnd = random.Random(chk.seed * 7919 + 16)
    cs = execute(cases(chk.tier, rnd))
    for c in cs:
        c.pop('reuse', None)
    live_cases, live_pairs = live(chk.tier, rnd, {'case': len(cs) + 1, 'pair': 100000})
    cs += live_cases
    # big frames first so that shards are balanced (items are dealt round-robin)
    order = sorted(cs, key=lambda c: -c['n'])
    results, rej = tlc.run_sharded('TraceWs', 'TraceWs.cfg', order, shards=16, timeout=900 if chk.tier == 'quick' else 3000)
    m = tlc.Merged(results)
    chk.add_tlc('TraceWs (build/parse cases judged by WsCodec)', m)
    if m.status == 'failed':
        raise MachineryError('TraceWs: ' + m.brief())
    byid = {c['id']: c for c in cs}
    for cid, clause in rej:
        c = byid[cid]
        sig = {'what': 'frame', 'clause': clause.strip('"').split(':')[0], 'len_class': 'lt126' if c['n'] < 126 else
               'lt65536' if c['n'] < 65536 else 'ge65536', 'masked': c['masked'], 'empty': c['n'] == 0}
        if c.get('live'):
            sig['through'] = 'web server echo'
        small = {k: v for k, v in c.items() if k not in ('built', 'p', 'rest')}
        small['built_head'] = c['built'][:16]
        chk.violation(sig, 'frame case %s: %s' % ({k: small[k] for k in ('fin', 'opcode', 'masked', 'n')}, clause), small)
    chk.traces(len(cs))
    for c in cs[:2] + order[:1]:
        chk.sample({k: (v if not isinstance(v, list) or len(v) < 24 else v[:24] + ['...(%d bytes)' % len(v)])
                    for k, v in c.items() if k != 'p'})

    pairs = accept_pairs(chk.tier, rnd) + live_pairs
    results2, rej2 = tlc.run_sharded('TraceSha1', 'TraceSha1.cfg', pairs, shards=8, timeout=600)
    m2 = tlc.Merged(results2)
    chk.add_tlc('TraceSha1 (SHA-1 state machine, one round per transition)', m2)
    if m2.status == 'failed':
        raise MachineryError('TraceSha1: ' + m2.brief())
    for pid_, clause in rej2:
        if pid_ == 0:
            raise MachineryError('Sha1.tla does not reproduce the RFC 6455 section 1.3 example')
        p = [x for x in pairs if x['id'] == pid_][0]
        chk.violation({'what': 'accept', 'keylen': len(p['key'])}, 'key_to_accept(%r): %s' % (bytes(p['key']), clause), p)
    chk.traces(len(pairs) - 1)
    chk.sample({'key': bytes(pairs[1]['key']).decode(), 'accept': bytes(pairs[1]['accept']).decode()})
    chk.cov['exhaustive'] = False
    chk.cov['live_web_server'] = {'echoed_frames': len(live_cases), 'handshakes': len(live_pairs)}
    chk.cov['case_space'] = {'frames': len(cs), 'accept_keys': len(pairs) - 1,
                             'tier_rule': 'quick: all 512 flag x opcode x mask combinations at lengths 0,1,125,126,127; '
                                          'every length 0..130 with 6 sampled combinations; 65535..65540 sampled. '
                                          'thorough: full product 512 x (0..130), 65530..65540 x 12, up to 1 MiB'}
    chk.assume('live part: frames reach the web server whole (one or several per segment); a frame cut across segments is outside the property',
               'payloads are the position-dependent pattern Pat(n, salt) of WsCodec.tla (byte values cover 0..255)',
               'payload lengths above 1 MiB are not executed (TLC integers are 32 bit; the 64-bit length field is checked up to 2^31)')


if __name__ == '__main__':
    main(run, 'C16')
