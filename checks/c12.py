"""C12 - the reverse proxy routes matching requests to a configured upstream, as documented.

(S) spec/Target.tla (ParseUrl, UrlAuthority) + spec/TraceReverse.tla: Expected(request, route table, rewrite option):
    some matching route decides; for an upstream route any of its URLs may be chosen (random.choice is nondeterminism of
    the specification); connection to the URL's host and port (default by scheme), request path = the URL's path, method,
    remaining headers and body preserved, Host rewritten iff the option is on, response relayed unmodified; no match => 404
    and no outbound connection; a dynamic route returning bytes is answered as is without any connection.
(R) route tables (static routes with 1..3 URLs with / without port and path, http and https; dynamic routes returning a
    URL or a literal response) x request paths matching none / one / several routes x methods x bodies x both settings of
    --rewrite-host-header, one or two requests per connection, through the REAL handler + ReverseProxy on SimNet.
(V) TLC decides each recorded connection.
"""
import itertools
import random

from harness import tlc, scen
from harness.common import main, MachineryError

RESP = b'HTTP/1.1 200 OK\r\nContent-Length: 9\r\nX-Origin: up\r\n\r\nfrom-up-1'
LITERAL = b'HTTP/1.1 200 OK\r\nContent-Length: 7\r\n\r\nliteral'
URLS = [b'http://a.example', b'http://a.example:8080', b'http://a.example/base', b'http://b.example:81/x/y?z=1', b'http://10.1.2.3:8000/',
        b'http://[::1]:9000/v6', b'https://s.example', b'https://s.example:8443/p', b'http://c.example:80/', b'http://u:p@d.example/cred']


def plugin_for(routes):
    from proxy.http.server import ReverseProxyBasePlugin
    from proxy.http.url import Url

    class P(ReverseProxyBasePlugin):
        def routes(self):
            out = []
            for r in routes:
                if r['kind'] == 'static':
                    out.append((r['prefix'].decode(), list(r['urls'])))
                else:
                    out.append(r['prefix'].decode())
            return out

        def handle_route(self, request, pattern):
            for r in routes:
                if r['kind'] != 'static' and pattern.pattern == r['prefix'].decode():
                    if r['kind'] == 'dynurl':
                        return Url.from_bytes(r['urls'][0])
                    return memoryview(LITERAL)
            raise AssertionError('no dynamic route for %r' % pattern.pattern)
    P.__name__ = P.__qualname__ = 'RevPlugin_%d' % id(routes)
    return P


def tables(rnd, quick):
    out = []
    singles = [[{'kind': 'static', 'prefix': b'/a/', 'urls': [u]}] for u in URLS]
    out += singles
    out.append([{'kind': 'static', 'prefix': b'/a/', 'urls': URLS[:3]}])
    out.append([{'kind': 'static', 'prefix': b'/a/', 'urls': [URLS[1], URLS[3]]}, {'kind': 'static', 'prefix': b'/b/', 'urls': [URLS[4]]}])
    out.append([{'kind': 'static', 'prefix': b'/a/', 'urls': [URLS[2]]}, {'kind': 'dynbytes', 'prefix': b'/l/', 'urls': []},
                {'kind': 'dynurl', 'prefix': b'/d/', 'urls': [URLS[3]]}])
    out.append([{'kind': 'dynbytes', 'prefix': b'/l/', 'urls': []}, {'kind': 'static', 'prefix': b'/a/', 'urls': [URLS[0]]}])
    out.append([{'kind': 'dynurl', 'prefix': b'/d/', 'urls': [URLS[1]]}, {'kind': 'static', 'prefix': b'/d/x', 'urls': [URLS[4]]}])   # overlapping
    out.append([{'kind': 'static', 'prefix': b'/a/', 'urls': [URLS[0]]}, {'kind': 'static', 'prefix': b'/a/b/', 'urls': [URLS[3]]}])     # overlapping
    # two routes whose upstreams share the HOST and differ in the PORT only (explicit / explicit, default / explicit, IP literal): a
    # kept-alive client connection that visits both must get a connection to each (seed C12d: upstream reuse decided by host alone)
    out.append([{'kind': 'static', 'prefix': b'/a/', 'urls': [b'http://a.example:8080/p1']}, {'kind': 'static', 'prefix': b'/b/', 'urls': [b'http://a.example:81/p2']}])
    out.append([{'kind': 'static', 'prefix': b'/a/', 'urls': [b'http://a.example/p1']}, {'kind': 'static', 'prefix': b'/b/', 'urls': [b'http://a.example:8080/p2']}])
    out.append([{'kind': 'static', 'prefix': b'/a/', 'urls': [b'http://10.1.2.3:8000/']}, {'kind': 'dynurl', 'prefix': b'/d/', 'urls': [b'http://10.1.2.3:8001/']}])
    # same port, hosts differing only in a suffix / case
    out.append([{'kind': 'static', 'prefix': b'/a/', 'urls': [b'http://a.example:8080/p1']}, {'kind': 'static', 'prefix': b'/b/', 'urls': [b'http://a.example.org:8080/p2']}])
    return out


def requests(rnd):
    paths = [b'/a/x', b'/a/', b'/a/b/c?q=1', b'/b/y', b'/d/z', b'/d/x/1', b'/l/w', b'/none', b'/A/x', b'/a', b'/', b'/x/a/']
    out = []
    for p in paths:
        method = rnd.choice([b'GET', b'POST', b'DELETE', b'PUT'])
        body = b'payload-%d' % rnd.randrange(100) if method in (b'POST', b'PUT') else b''
        hs = [(rnd.choice([b'Host', b'host', b'HOST', b'hOsT']), b'front.example'), (rnd.choice([b'X-A', b'x-a']), b'v:1'), (b'Accept', b'*/*')]
        rnd.shuffle(hs)
        raw = method + b' ' + p + b' HTTP/1.1\r\n' + b''.join(a + b': ' + b + b'\r\n' for a, b in hs) + \
            (b'Content-Length: %d\r\n' % len(body) if body else b'') + b'\r\n' + body
        out.append(raw)
    return out


def run(chk):
    quick = chk.tier == 'quick'
    rnd = random.Random(chk.seed * 53 + 9)
    cases, descs = [], {}
    for table in tables(rnd, quick):
        plugin = plugin_for(table)
        reqs = requests(rnd)
        seqs = [[r] for r in reqs] + [[rnd.choice(reqs), rnd.choice(reqs)] for _ in range(6 if quick else 30)] + \
            [[reqs[0], reqs[6]], [reqs[6], reqs[0]], [reqs[0], reqs[7]]] + \
            [[reqs[0], reqs[3]], [reqs[3], reqs[0]], [reqs[0], reqs[3], reqs[0]], [reqs[0], reqs[4], reqs[0]], [reqs[4], reqs[0], reqs[4]],
             [reqs[0], reqs[0], reqs[3], reqs[3]]]
        for rewrite in (False, True):
            for seq in seqs:
                if quick and len(seq) == 1 and rnd.random() > 0.6:
                    continue
                args = ['--enable-reverse-proxy'] + (['--rewrite-host-header'] if rewrite else [])
                conv = scen.Conversation(args=args, flag_opts={'plugins': [plugin]})
                c = conv.client()
                conns, ugot, cgot, reused = [], [], [], []
                current = None
                for raw in seq:
                    n0, g0, u0 = len(conv.sim.world.connects), len(c.got), len(conv.sim.upstreams)
                    seen0 = len(current.got) if current is not None else 0
                    for piece in scen.pieces(raw, rnd, rnd.choice(['one', 'two', 'crlf'])):
                        conv.step(('c', piece))
                    new = conv.sim.upstreams[u0:]
                    if new:
                        current, seen0 = new[-1], 0
                        reused.append({'host': [], 'port': 0})
                    elif current is not None and len(current.got) > seen0:
                        reused.append({'host': list(str(current.addr[0]).encode()), 'port': current.addr[1]})   # an established upstream connection was used
                    else:
                        reused.append({'host': [], 'port': 0})
                    if current is not None and len(current.got) > seen0 and not current.closed:
                        current.write(RESP)
                        conv.settle()
                    conns.append([{'host': list(str(x['host']).encode()), 'port': x['port']} for x in conv.sim.world.connects[n0:]])
                    ugot.append(list(current.got[seen0:]) if current is not None else [])
                    cgot.append(list(c.got[g0:]))
                    if c.eof_seen:
                        break
                k = len(conns)
                cid = len(cases) + 1
                cases.append({'id': cid, 'routes': [{'kind': r['kind'], 'prefix': list(r['prefix']), 'urls': [list(u) for u in r['urls']]} for r in table],
                              'rewrite': rewrite, 'reqs': [list(r) for r in seq[:k]], 'conns': conns, 'reused': reused, 'ugot': ugot, 'cgot': cgot,
                              'resp': list(RESP), 'literal': list(LITERAL)})
                descs[cid] = {'routes': [(r['kind'], r['prefix'].decode(), [u.decode() for u in r['urls']]) for r in table], 'rewrite': rewrite,
                              'requests': [r.split(b'\r\n')[0].decode() for r in seq[:k]], 'loop_alive': conv.sim.alive}
    results, rej = tlc.run_sharded('TraceReverse', 'TraceReverse.cfg', cases, shards=16, timeout=1200)
    m = tlc.Merged(results)
    chk.add_tlc('TraceReverse (%d connections)' % len(cases), m)
    if m.status == 'failed':
        raise MachineryError('TraceReverse: ' + m.brief())
    chk.traces(len(cases))
    byid = {c['id']: c for c in cases}
    for cid, clause in rej:
        if clause.startswith('machinery'):
            raise MachineryError('case %d: %s' % (cid, clause))
        d, c = descs[cid], byid[cid]
        sig = {'clause': clause.split(' (request')[0], 'second_request': '(request 2)' in clause,
               'switched_upstream': len(c['conns']) > 1 and len(c['conns'][1]) > 0 and len(c['conns'][0]) > 0}
        chk.violation(sig, '%s rewrite=%s %s: %s' % (d['routes'], d['rewrite'], d['requests'], clause),
                      {'case': d, 'connections': [[(bytes(x['host']).decode(), x['port']) for x in k] for k in c['conns']],
                       'upstream_received': [bytes(u).decode('latin1')[:300] for u in c['ugot']],
                       'client_received': [bytes(u).decode('latin1')[:200] for u in c['cgot']]})
    chk.cov['route_tables'] = len(tables(rnd, quick))
    for c in cases[:2]:
        chk.sample({'case': descs[c['id']], 'connections': [[(bytes(x['host']).decode(), x['port']) for x in k] for k in c['conns']]})
    chk.assume('route regular expressions are literal prefixes (re.match semantics = starts-with)',
               'https upstreams: only the connection attempt (host, port 443 by default) is observable on SimNet, the TLS session is not',
               'when several routes match, the behaviour of any matching route is accepted')


if __name__ == '__main__':
    main(run, 'C12')
