"""C20 - idle connections are reaped after the timeout and active ones never are.

(S) spec/Idle.tla: integer clock, lastAct (last client-side read or write handled by the proxy), pending output, the wire
    towards the client with capacity CAP, the periodic sweep Reap.  TLC exhaustive: ReapedOnlyIfIdle (action property),
    NeverWithPending, over all timed traces with event times at threshold - 1 / 0 / + 1.
(G) tlc -simulate behaviours (timed traces).
(R) each behaviour is executed on the REAL handler: an established CONNECT tunnel on SimNet with a virtual clock patched
    over time.time; Reap is the executor's own _cleanup_inactive; in threaded mode the handler's own is_inactive loop check.
(V) spec/TraceIdle.tla: after every step the connection is closed exactly when the model says.
"""
import shutil
import tempfile

from harness import tlc, tlaval, scen
from harness.common import main, MachineryError

CONNECT = b'CONNECT h.example:443 HTTP/1.1\r\nHost: h.example:443\r\n\r\n'


def generate(consts, num, seed, depth):
    tmp = tempfile.mkdtemp(prefix='idle-gen-')
    try:
        r = tlc.run('Idle', cfg_text='SPECIFICATION Spec\nCHECK_DEADLOCK FALSE\n', constants=consts, workers=1, timeout=600,
                    simulate='file=%s/b,num=%d' % (tmp, num), depth=depth, seed=seed)
        if r.status != 'ok':
            raise MachineryError('behaviour generation failed:\n' + r.brief())
        out, seen = [], set()
        for _f, b in tlaval.behaviours(tmp + '/b'):
            steps = tuple(a for a, _p, _s in b[1:])
            if steps in seen or not steps or 'Reap' not in steps:
                continue
            seen.add(steps)
            out.append(list(steps))
        return out, r
    finally:
        shutil.rmtree(tmp, ignore_errors=True)


def execute(steps, T, CAP, timeout_s, U, threaded=False):
    conv = scen.Conversation(args=['--timeout', str(timeout_s), '--client-recvbuf-size', str(U), '--server-recvbuf-size', str(U)], threaded=threaded)
    sim = conv.sim
    c = conv.client()
    conv.step(('c', CONNECT))
    u = sim.upstreams[0]
    ack = len(c.got)
    handler = sim.live_handler() if threaded else next(iter(sim.ex.works.values()))
    c.sock.cap = CAP * U            # the wire towards the client
    unit_s = timeout_s / T
    out = []
    sent = 0

    def closed():
        if threaded:
            return not any(h is handler for h, _p in sim.handlers)
        return not any(w is handler for w in sim.ex.works.values())
    for act in steps:
        if act == 'Advance':
            sim.world.now += unit_s
        elif act == 'CSend':
            c.write(bytes([65 + sent % 26]) * U)
            sent += 1
            sim.tick(3)
            while u.read():
                pass
        elif act == 'CTouch':
            # part of a TLS record arrives: the socket is readable, the read answers "want read", nothing is delivered
            import ssl
            ps = c.proxy_side
            if ps is not None and not ps.closed:
                ps.arm('recv', ssl.SSLWantReadError())
                c.write(b'\x17')
                sim.tick(1)
                ps.rx.clear()            # the TLS layer has swallowed the bytes
                ps.armed.get('recv', []).clear()
            sim.tick(1)
        elif act == 'USend':
            u.write(b'u' * U)
            sim.tick(3)
        elif act == 'CRead':
            c.read(U)
            sim.tick(3)
        elif act == 'Reap':
            sim.reap()
            sim.tick(1)
        pend = (not closed()) and handler.work.has_buffer()
        out.append({'act': act, 'obs': {'closed': closed(), 'pending': 1 if pend else 0}})
        if not sim.alive:
            out[-1]['obs']['closed'] = True
            break
    return out


def run(chk):
    quick = chk.tier == 'quick'
    plan = [({'T': 2, 'CAP': 1, 'MAXT': 7}, 6, 64), ({'T': 3, 'CAP': 2, 'MAXT': 9}, 9, 4096)]
    if not quick:
        plan.append(({'T': 1, 'CAP': 1, 'MAXT': 5}, 1, 16))
        plan.append(({'T': 5, 'CAP': 2, 'MAXT': 12}, 10, 70000))
    for consts, timeout_s, U in plan:
        r = tlc.run('Idle', 'Idle.cfg', constants=consts, workers=8, timeout=600)
        chk.add_tlc('Idle %s (exhaustive)' % consts, r, exhaustive=True)
        chk.require_ok('Idle', r)
        behs, g = generate(consts, 2500 if quick else 30000, chk.seed * 17 + consts['T'], 3 * consts['MAXT'])
        chk.add_tlc('Idle -simulate T=%d' % consts['T'], g)
        traces = [{'id': n + 1, 'steps': execute(b, consts['T'], consts['CAP'], timeout_s, U)} for n, b in enumerate(behs)]
        # threaded mode: the handler's own loop checks is_inactive() (here: when the schedule says Reap)
        for b in behs[::4]:
            traces.append({'id': len(traces) + 1, 'steps': execute(b, consts['T'], consts['CAP'], timeout_s, U, threaded=True), 'threaded': True})
        results, rej = tlc.run_sharded('TraceIdle', 'TraceIdle.cfg', traces, shards=16, timeout=900, constants=consts)
        m = tlc.Merged(results)
        chk.add_tlc('TraceIdle T=%d (%d timed executions of the real handler)' % (consts['T'], len(traces)), m)
        if m.status == 'failed' or any(x.status == 'violated' for x in results):
            raise MachineryError('TraceIdle: ' + (m.brief() if m.status == 'failed' else [x for x in results if x.status == 'violated'][0].brief()))
        chk.traces(len(traces))
        for tid, rest in rej:
            idx, clause = rest.split('|', 1)
            if clause.startswith('machinery'):
                raise MachineryError('trace %d: %s %s' % (tid, clause, traces[tid - 1]['steps'][:int(idx)]))
            acts = [s['act'] for s in traces[tid - 1]['steps'][:int(idx)]]
            chk.violation({'clause': clause.split(' (')[0][:80], 'threaded': bool(traces[tid - 1].get('threaded'))},
                          '%stimeout %d units, schedule %s: %s' % ('threaded mode, ' if traces[tid - 1].get('threaded') else '', consts['T'], ' '.join(acts), clause),
                          {'schedule': acts, 'timeout_seconds': timeout_s, 'unit_bytes': U, 'consts': consts})
        chk.sample({'consts': consts, 'timeout_seconds': timeout_s, 'schedule': [s['act'] for s in traces[0]['steps']],
                    'closed_after_each_step': [s['obs']['closed'] for s in traces[0]['steps']]})
    chk.assume('virtual clock patched over time.time in proxy.http.handler; the sweep is the executor\'s own _cleanup_inactive, called when the '
               'schedule says (the tick arithmetic of _run_forever that decides WHEN sweeps happen is not exercised here)',
               'threaded mode: the handler is driven through its own is_inactive() / _run_once() / shutdown() as run() does, one loop iteration per tick')


if __name__ == '__main__':
    main(run, 'C20')
