"""C03 - incremental HTTP parsing does not depend on how the input is segmented.

(S) spec/Http.tla  reference one-shot semantics of a message (start line, headers, framing, chunked decoding,
                   message end, remainder); spec/Target.tla for the request-target; spec/TraceParse.tla: the ideal
                   incremental parser = accumulate + Parse, complete exactly from the piece holding the last byte.
(R) every message of a grammar-generated corpus is fed to the REAL HttpParser / ChunkParser under: one piece, every
    2-piece cut, every 3-piece cut (short messages; sampled otherwise), one byte per piece, seeded random multi-cuts.
    Recorded per segmentation: the piece after which completion was first reported, and the final view.
(V) TLC (TraceParse) judges every recorded segmentation against the reference; a rejection names the clause.
"""
import itertools
import os
import random
from concurrent.futures import ProcessPoolExecutor

from harness import tlc, httpgen
from harness.common import main, MachineryError


def segmentations(n, rnd, full3, nrand):
    segs = [[n]]
    if n >= 2:
        segs += [[a, n] for a in range(1, n)]
        segs.append(list(range(1, n + 1)))
    if n >= 3:
        if n <= full3:
            segs += [[a, b, n] for a, b in itertools.combinations(range(1, n), 2)]
        else:
            for _ in range(full3 * 8):
                a, b = sorted(rnd.sample(range(1, n), 2))
                segs.append([a, b, n])
        for _ in range(nrand):
            k = rnd.randrange(3, min(n, 12))
            segs.append(sorted(rnd.sample(range(1, n), k)) + [n])
    return segs


def b2l(b):
    return list(b) if b else []


def run_one(args):
    raw, desc, cid, seed, full3, nrand = args
    from proxy.http.parser import HttpParser, httpParserTypes, ChunkParser, chunkParserStates
    rnd = random.Random(seed)
    kind = desc['kind']
    views, index, segs = [], {}, []
    for ends in segmentations(len(raw), rnd, full3, nrand):
        k = 0
        exc = ''
        rest = b''
        try:
            if kind == 'chunk':
                p = ChunkParser()
                start = 0
                for i, e in enumerate(ends):
                    done_before = p.state == chunkParserStates.COMPLETE
                    r = p.parse(memoryview(raw[start:e]))
                    if p.state == chunkParserStates.COMPLETE:
                        rest += bytes(r)            # after completion parse() hands the bytes back
                    if not k and p.state == chunkParserStates.COMPLETE:
                        k = i + 1
                    start = e
                view = (p.state == chunkParserStates.COMPLETE, '', None, None, None, None, None, None, None, (), bytes(p.body), rest, b'')
            else:
                p = HttpParser(httpParserTypes.REQUEST_PARSER if kind == 'req' else httpParserTypes.RESPONSE_PARSER,
                               enable_proxy_protocol=1 if desc.get('proxy_line') else 0)
                start = 0
                for i, e in enumerate(ends):
                    p.parse(memoryview(raw[start:e]))
                    if not k and p.is_complete:
                        k = i + 1
                    start = e
                hdrs = tuple(sorted((v[0], v[1]) for v in (p.headers or {}).values()))
                pp = b''
                if p.protocol is not None:      # what the PROXY protocol line was understood as (compared across segmentations)
                    pp = repr((p.protocol.version, p.protocol.family, p.protocol.source, p.protocol.destination)).encode()
                view = (bool(p.is_complete), '', p.method, p.host, p.port, p.path, p.version, p.code, p.reason, hdrs,
                        p.body, bytes(p.buffer) if p.buffer is not None else b'', pp)
        except Exception as e:     # noqa
            view = (False, type(e).__name__, None, None, None, None, None, None, None, (), None, b'', b'')
            k = 0
        if view not in index:
            index[view] = len(views) + 1
            c, x, method, host, port, path, version, code, reason, hdrs, body, rest_, pp_ = view
            views.append({'complete': c, 'exc': x, 'method': b2l(method), 'host': b2l(host), 'port': port if isinstance(port, int) else -1,
                          'path': b2l(path), 'version': b2l(version), 'code': b2l(code), 'reason': b2l(reason),
                          'hdrs': [[b2l(a), b2l(b)] for a, b in hdrs], 'body': b2l(body), 'rest': b2l(rest_), 'pp': b2l(pp_)})
        segs.append([k, index[view]] + ends)
    return {'id': cid, 'kind': kind, 'bytes': list(raw), 'skip': len(desc.get('proxy_line') or b''), 'views': views, 'segs': segs}, desc


def run(chk):
    quick = chk.tier == 'quick'
    seed = chk.seed
    msgs = httpgen.corpus(seed * 7 + 1, 1 if quick else 6)
    # the same parser behind --enable-proxy-protocol: a PROXY protocol v1 line ahead of the request
    prnd = random.Random(seed * 7 + 2)
    lines = [b'PROXY TCP4 192.168.0.1 192.168.0.11 56324 443\r\n', b'PROXY TCP6 2001:db8::1 2001:db8::2 1 65535\r\n', b'PROXY UNKNOWN\r\n',
             b'PROXY TCP4 255.255.255.255 255.255.255.255 65535 65535\r\n']
    extra = []
    for raw, desc in msgs:
        if desc['kind'] == 'req' and prnd.random() < (0.5 if quick else 0.7) and len(raw) < 400:
            ln = prnd.choice(lines)
            d2 = dict(desc)
            d2['proxy_line'] = ln
            extra.append((ln + raw, d2))
    msgs = msgs + extra
    full3 = 60 if quick else 90
    nrand = 20 if quick else 60
    jobs = [(raw, desc, i + 1, seed * 1000 + i, full3, nrand) for i, (raw, desc) in enumerate(msgs)]
    with ProcessPoolExecutor(16) as ex:
        done = list(ex.map(run_one, jobs, chunksize=4))
    cases = [c for c, _ in done]
    descs = {c['id']: d for c, d in done}
    nseg = sum(len(c['segs']) for c in cases)
    results, rej = tlc.run_sharded('TraceParse', 'TraceParse.cfg', cases, shards=16, timeout=1500, heap='6g')
    m = tlc.Merged(results)
    chk.add_tlc('TraceParse (%d messages, %d segmentations)' % (len(cases), nseg), m)
    if m.status == 'failed':
        raise MachineryError('TraceParse: ' + m.brief())
    chk.traces(nseg)
    classes = {}
    for d in descs.values():
        key = (d['kind'] + ('+PROXY line' if d.get('proxy_line') else ''), d['framing'], bool(d.get('trailing')))
        classes[key] = classes.get(key, 0) + 1
    chk.cov['messages'] = len(cases)
    chk.cov['segmentations_executed'] = nseg
    chk.cov['message_classes'] = {'%s/%s/%s' % (k[0], k[1], 'trailing' if k[2] else 'no-trailing'): v for k, v in sorted(classes.items())}
    chk.cov['distinct_final_views'] = sum(len(c['views']) for c in cases)
    byid = {c['id']: c for c in cases}
    for cid, rest in rej:
        idx, clause = rest.split('|', 1)
        if clause.startswith('machinery'):
            raise MachineryError('case %d: %s (%s)' % (cid, clause, descs[cid]))
        c = byid[cid]
        seg = c['segs'][int(idx) - 1] if int(idx) > 0 else None
        raw = bytes(c['bytes'])
        pieces = None
        if seg:
            ends = seg[2:]
            pieces = [raw[a:b].decode('latin1') for a, b in zip([0] + ends[:-1], ends)]
        d = descs[cid]
        sig = {'clause': clause.split(' (')[0], 'kind': d['kind'], 'framing': d['framing']}
        if d.get('proxy_line'):
            sig['proxy_protocol'] = True
        chk.violation(sig, '%s %s message of %d bytes: %s' % (d['kind'], d['framing'], len(raw), clause),
                      {'case': d, 'message': raw.decode('latin1'), 'pieces': pieces, 'first_complete_piece': seg[0] if seg else None})
    for c in cases[:3]:
        chk.sample({'case': descs[c['id']], 'message': bytes(c['bytes']).decode('latin1'), 'segmentations': len(c['segs']),
                    'example_segmentation_piece_ends': c['segs'][min(5, len(c['segs']) - 1)][2:]})
    chk.assume('corpus is grammar-generated (harness/httpgen.py): bounded-exhaustive over framing x trailing-bytes x chunk options, '
               'sampled header/body content; all 1-, 2- and (short messages) 3-piece segmentations plus one byte per piece are executed',
               'close-delimited framing and body-less messages with trailing bytes are excluded by the property',
               'the reference (spec/Http.tla) treats only SP/HT as optional whitespace around header values')


if __name__ == '__main__':
    main(run, 'C03')
