"""C04 - each request on a persistent connection is answered in order by the right origin.

(S) spec/Persist.tla design model (requests cut into units, any packing into segments, origins answering at their own
    pace, head-of-line relaying); TLC: OneResponsePerRequestInOrder, RightOrigin, AllAnswered (liveness under fairness).
(G) tlc -simulate -> behaviours = client scripts + packings + origin answer timings.
(R) each behaviour is executed as an environment schedule against the REAL handler in three roles (forward proxy,
    built-in web server with route plugins, reverse proxy), followed by a fair drain.
(V) spec/TracePersist.tla compares the settled outcome with Expected(script).
"""
import random
import re
import shutil
import tempfile

from harness import tlc, tlaval, scen
from harness.common import main, MachineryError

HOSTS = {'a': b'a.example', 'b': b'b.example'}
# every other history runs against two origins that share the HOST and differ in the PORT only (seed C12d: reuse decided by host alone)
ADDR = {False: {'a': (b'a.example', 80), 'b': (b'b.example', 80)}, True: {'a': (b'o.example', 8001), 'b': (b'o.example', 8002)}}


def authority(o, ports):
    h, p = ADDR[ports][o]
    return h + (b':%d' % p if ports else b'')


def generate(num, seed, nreq=3, polite=False):
    tmp = tempfile.mkdtemp(prefix='persist-gen-')
    try:
        r = tlc.run('Persist', cfg_text='SPECIFICATION Spec\nCONSTANTS\n NREQ = %d\n Origins = {"a", "b"}\n Polite = %s\nCHECK_DEADLOCK FALSE\n' % (nreq, 'TRUE' if polite else 'FALSE'),
                    workers=1, timeout=600, simulate='file=%s/b,num=%d' % (tmp, num), depth=40, seed=seed)
        if r.status != 'ok':
            raise MachineryError('behaviour generation failed:\n' + r.brief())
        out, seen = [], set()
        for _f, b in tlaval.behaviours(tmp + '/b'):
            script = list(b[0][2]['script']) if not isinstance(b[0][2]['script'], dict) else \
                [b[0][2]['script'][k + 1] for k in range(len(b[0][2]['script']))]
            sched = []
            prev = b[0][2]
            for act, _p, st in b[1:]:
                if act == 'Write':
                    sched.append(('write',))
                elif act == 'Deliver':
                    sched.append(('deliver',))
                elif act == 'Answer':
                    o = [x for x in ('a', 'b') if st['answered'][x] != prev['answered'][x]][0]
                    sched.append(('answer', o))
                prev = st
            key = (tuple(script), tuple(sched))
            if key in seen or not sched:
                continue
            seen.add(key)
            out.append({'script': script, 'schedule': sched})
        return out, r
    finally:
        shutil.rmtree(tmp, ignore_errors=True)


# ---- roles ------------------------------------------------------------------------------------------
def req_bytes(role, o, k, body, ports=False):
    if role == 'forward':
        target = b'http://' + authority(o, ports) + b'/r%d' % k
        host = authority(o, ports)
    else:
        target = b'/%s/r%d' % (o.encode(), k)
        host = b'proxy.example'
    if body:
        return b'POST ' + target + b' HTTP/1.1\r\nHost: ' + host + b'\r\nContent-Length: 6\r\n\r\nbody-%d' % k
    return b'GET ' + target + b' HTTP/1.1\r\nHost: ' + host + b'\r\n\r\n'


def label_response(o, k):
    body = b'%s:%d' % (o.encode(), k)
    return b'HTTP/1.1 200 OK\r\nContent-Length: %d\r\n\r\n' % len(body) + body


def web_plugins(log):
    from proxy.http.server import HttpWebServerBasePlugin, httpProtocolTypes

    def make(o):
        class Route(HttpWebServerBasePlugin):
            def routes(self):
                return [(httpProtocolTypes.HTTP, r'/%s/' % o)]

            def handle_request(self, request):
                m = re.search(rb'/r(\d+)', request.path or b'')
                k = int(m.group(1)) if m else 0
                log.append((o, k))
                self.client.queue(memoryview(label_response(o, k)))
        Route.__name__ = Route.__qualname__ = 'Route_%s_%d' % (o, id(log))
        return Route
    return [make('a'), make('b')]


def reverse_plugin(ports=False):
    from proxy.http.server import ReverseProxyBasePlugin

    class Rev(ReverseProxyBasePlugin):
        def routes(self):
            return [(r'/a/', [b'http://' + authority('a', ports) + b'/ua']), (r'/b/', [b'http://' + authority('b', ports) + b'/ub'])]
    Rev.__name__ = Rev.__qualname__ = 'Rev_ports' if ports else 'Rev'
    return Rev


def reverse_mixed_plugin(log):
    """Route a is forwarded to an upstream URL, route b is answered by the plugin itself (dynamic route returning bytes)."""
    from proxy.http.server import ReverseProxyBasePlugin

    class RevMixed(ReverseProxyBasePlugin):
        def routes(self):
            return [(r'/a/', [b'http://a.example/ua']), r'/b/']

        def handle_route(self, request, pattern):
            x = re.search(rb'/r(\d+)', request.path or b'')
            k = int(x.group(1)) if x else 0
            log.append(('b', k))
            return memoryview(label_response('b', k))
    RevMixed.__name__ = RevMixed.__qualname__ = 'RevMixed_%d' % id(log)
    return RevMixed


class Origin:
    """Non-reactive origin: collects bytes, answers its oldest unanswered complete request when told to."""

    def __init__(self, name):
        self.name = name
        self.peers = []
        self.answered = 0

    def requests(self):
        out = []
        for p in self.peers:
            raw = bytes(p.got)
            while raw:
                head, sep, rest = raw.partition(b'\r\n\r\n')
                if not sep:
                    break
                cl = re.search(rb'(?im)^content-length:\s*(\d+)', head)
                n = int(cl.group(1)) if cl else 0
                if len(rest) < n:
                    break
                m = re.search(rb'/r(\d+)', head.split(b'\r\n')[0]) or re.search(rb'body-(\d+)', rest[:n])
                # the reverse proxy rewrites the path: the request number travels in X-K as well
                x = re.search(rb'(?im)^x-k:\s*(\d+)', head)
                out.append((p, int(x.group(1)) if x else (int(m.group(1)) if m else 0)))
                raw = rest[n:]
        return out

    def answer_one(self):
        reqs = self.requests()
        if self.answered < len(reqs):
            p, k = reqs[self.answered]
            self.answered += 1
            p.write(label_response(self.name, k))
            return True
        return False


def execute(case, role, rnd, threaded=False, ports=False):
    log = []
    if role == 'forward':
        conv = scen.Conversation(args=[], threaded=threaded)
    elif role == 'web':
        conv = scen.Conversation(args=['--enable-web-server'], flag_opts={'plugins': web_plugins(log)}, threaded=threaded)
    elif role == 'reverse-mixed':
        conv = scen.Conversation(args=['--enable-reverse-proxy'], flag_opts={'plugins': [reverse_mixed_plugin(log)]}, threaded=threaded)
    else:
        conv = scen.Conversation(args=['--enable-reverse-proxy'], flag_opts={'plugins': [reverse_plugin(ports)]}, threaded=threaded)
    origins = {'a': Origin('a'), 'b': Origin('b')}

    def on_accept(peer, host, port):
        for o, (h, p) in ADDR[ports].items():
            if host == h.decode() and port == p:
                origins[o].peers.append(peer)
    conv.sim.origin_setup = on_accept
    c = conv.client()
    script = case['script']
    bodies = [rnd.random() < .4 for _ in script]
    units = []
    for k, o in enumerate(script):
        raw = req_bytes(role, o, k + 1, bodies[k], ports)
        if role.startswith('reverse'):
            raw = raw.replace(b'\r\n\r\n', b'\r\nX-K: %d\r\n\r\n' % (k + 1), 1)
        cut = rnd.randrange(1, len(raw))
        units += [raw[:cut], raw[cut:]]
    nwritten, seg = 0, b''
    for st in case['schedule']:
        if st[0] == 'write':
            seg += units[nwritten]
            nwritten += 1
        elif st[0] == 'deliver':
            conv.step(('c', seg))
            seg = b''
        elif st[0] == 'answer':
            if origins[st[1]].answer_one():
                conv.settle()
    # fair drain: everything still unwritten is delivered, origins answer everything they have
    seg += b''.join(units[nwritten:])
    if seg:
        conv.step(('c', seg))
    for _ in range(12):
        moved = False
        for o in origins.values():
            while o.answer_one():
                moved = True
                conv.settle()
        if not moved:
            break
    t = conv.transcript()
    got = []
    raw = t['clients'][0]['got']
    while raw:
        head, sep, rest = raw.partition(b'\r\n\r\n')
        if not sep:
            got.append(['?', 0])
            break
        cl = re.search(rb'(?im)^content-length:\s*(\d+)', head)
        n = int(cl.group(1)) if cl else len(rest)
        m = re.match(rb'([ab]):(\d+)$', rest[:n])
        got.append([m.group(1).decode(), int(m.group(2))] if m else ['proxy-' + head.split(b' ')[1].decode('latin1'), 0])
        raw = rest[n:]
    if role == 'web':
        inbox = {o: [k for (x, k) in log if x == o] for o in 'ab'}
    elif role == 'reverse-mixed':
        inbox = {'a': [k for (_p, k) in origins['a'].requests()], 'b': [k for (x, k) in log if x == 'b']}
    else:
        inbox = {o: [k for (_p, k) in origins[o].requests()] for o in 'ab'}
    packed = overlap = False
    n, segn, delivered, answers = 0, 0, 0, 0
    for st in case['schedule']:
        if st[0] == 'write':
            n += 1
            segn += 1
        elif st[0] == 'answer':
            answers += 1
        elif st[0] == 'deliver':
            delivered = n
            if delivered // 2 - min(answers, delivered // 2) >= 2:
                overlap = True
            # a segment holding the end of one request and (part of) the next
            first = n - segn
            if segn and (first // 2 != (n - 1) // 2) and any(u % 2 == 1 for u in range(first, n - 1)):
                packed = True
            segn = 0
    return {'got': got, 'inbox': inbox, 'ceof': t['clients'][0]['eof'], 'alive': t['alive'], 'loop_error': t['loop_error'],
            'packed': packed, 'overlap': overlap, 'bodies': bodies}


def run(chk):
    quick = chk.tier == 'quick'
    rnd = random.Random(chk.seed * 29 + 8)
    r = tlc.run('Persist', 'Persist.cfg', workers=16, timeout=600)
    chk.add_tlc('Persist NREQ=3 (design: safety + liveness, exhaustive)', r, exhaustive=True)
    chk.require_ok('Persist', r)
    behs, g = generate(300 if quick else 2500, chk.seed * 5 + 1)
    chk.add_tlc('Persist -simulate (any packing, any timing)', g)
    behs2, g2 = generate(300 if quick else 1500, chk.seed * 5 + 2, polite=True)
    chk.add_tlc('Persist -simulate (polite client: next request after the previous response, no segment spans requests)', g2)
    behs += behs2
    traces, infos = [], []
    for nc, case in enumerate(behs):
        for role, threaded in [(r_, False) for r_ in ('forward', 'web', 'reverse', 'reverse-mixed')] + \
                ([(('forward', 'web', 'reverse', 'reverse-mixed')[(nc // 4) % 4], True)] if nc % 4 == 3 else []):
            # every fourth history once more with the connection handled as --threaded mode does (own selector, run() loop)
            ports = nc % 2 == 1 and role in ('forward', 'reverse')
            obs = execute(case, role, rnd, threaded, ports)
            tid = len(traces) + 1
            traces.append({'id': tid, 'script': case['script'], 'got': obs['got'], 'inbox': obs['inbox'], 'ceof': obs['ceof']})
            infos.append({'role': role, 'same_host_origins': ports, 'mode': 'threaded' if threaded else 'threadless', 'script': case['script'], 'schedule': [' '.join(s) for s in case['schedule']], 'packed': obs['packed'], 'overlap': obs['overlap'],
                          'bodies': obs['bodies'], 'alive': obs['alive'], 'loop_error': obs['loop_error']})
            if not obs['alive']:
                chk.notes.append('executor loop died (%s, script %s): %s (reported under C05)' % (role, case['script'], obs['loop_error']))
    results, rej = tlc.run_sharded('TracePersist', 'TracePersist.cfg', traces, shards=16, timeout=900)
    m = tlc.Merged(results)
    chk.add_tlc('TracePersist (%d executions)' % len(traces), m)
    if m.status == 'failed':
        raise MachineryError('TracePersist: ' + m.brief())
    chk.traces(len(traces))
    for tid, clause in rej:
        info, t = infos[tid - 1], traces[tid - 1]
        kind = re.sub(r'\d+', 'N', clause.split(' but ')[0].split(':')[0])[:70]
        sig = {'role': info['role'], 'kind': kind, 'multi_origin': len(set(info['script'])) > 1, 'packed': info['packed'], 'overlap': info['overlap'],
               'loop_died': not info['alive']}
        chk.violation(sig, '%s script %s schedule [%s]: %s' % (info['role'] + ('/threaded' if info['mode'] == 'threaded' else ''), info['script'], ', '.join(info['schedule']), clause),
                      {'info': info, 'observed': t})
    for i, t in list(zip(infos, traces))[:3]:
        chk.sample({'role': i['role'], 'script': i['script'], 'schedule': i['schedule'], 'client_got': t['got'], 'inbox': t['inbox']})
    chk.cov['roles'] = ['forward', 'web', 'reverse', 'reverse-mixed']
    chk.assume('each request is cut into two units at a seeded position; packings and origin timings come from the model',
               'every other history of the forward and reverse roles runs against two origins sharing the host and differing in the port only',
               'the web role uses two route plugins (one per route); the reverse role one plugin with two static routes')


if __name__ == '__main__':
    main(run, 'C04')
