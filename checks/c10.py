"""C10 - every connection's resources are released exactly once, however it ends.

(S) spec/Resources.tla: the descriptor discipline of one connection (open / register / unregister / close / end, descriptor
    NUMBERS being reused by the kernel); TLC exhaustive: NoResidue, NeverTwice.
(R) connection histories = every script of every role x every prefix x every kind of abort (client close / reset /
    half-close, upstream close / reset, connect refusal / timeout / resolution failure / unreachable, injected socket errors
    at every call) plus grammar-mutated inputs, executed on the REAL handler stack (SimNet: lowest-free descriptor numbers,
    CPython-like finalisers, epoll-like selector); then the connection is ended (client closes, idle timeout passes, reaper
    runs), garbage is collected and a census is taken; every history is repeated three times on the same worker.
(V) spec/TraceRes.tla steps the descriptor-level event log through Resources.tla and judges the final census.
"""
import gc
import random

import os

from harness import tlc, scen, realnet, tlsfix
from harness.common import main, MachineryError
from checks import c05


def run_history(role, script, how, reps=3):
    args, opts = c05.role_setup(role)
    conv = scen.Conversation(args=args + ['--timeout', '5'], flag_opts=opts or None,
                             origins={'a.example': how, ('a.example', 80): how, ('a.example', 443): how})
    sim = conv.sim
    errs = dict(c05.ERRORS)
    first_log, counts = None, []
    for rep in range(reps):
        start = len(sim.world.log)
        c = conv.client(addr=('192.0.2.66', 6000 + rep))
        ups0 = len(sim.upstreams)
        for st in script:
            ups = sim.upstreams[ups0:]
            if st[0] == 'arm':
                _, which, op, ename = st
                target = None
                if which == 'c':
                    ps = c.proxy_side
                    target = ps if ps is not None and not ps.closed else None
                elif ups:
                    target = ups[0].sock.peer
                if target is not None and not target.closed:
                    target.arm(op, errs[ename]())
            elif st[0] == 'c':
                if not c.closed:
                    c.write(st[1])
            elif st[0] == 'u':
                ui = min(st[1], len(ups)) - 1
                if ups and not ups[ui].closed:
                    ups[ui].write(st[2])
            elif st[0] in ('cclose', 'creset', 'cshut'):
                getattr(c, {'cclose': 'close', 'creset': 'reset', 'cshut': 'shut_wr'}[st[0]])()
            elif st[0] in ('uclose', 'ureset', 'ushut'):
                if ups:
                    getattr(ups[0], {'uclose': 'close', 'ureset': 'reset', 'ushut': 'shut_wr'}[st[0]])()
            conv.settle()
            if not sim.alive:
                break
        # the connection ends: the client goes away, the idle timeout passes, the reaper runs
        if not c.closed:
            c.close()
        conv.settle()
        sim.world.now += 11
        sim.reap()
        conv.settle()
        for p in sim.upstreams[ups0:]:
            if not p.closed:
                p.close()
        conv.settle()
        del c
        gc.collect()
        if rep == 0:
            first_log = list(sim.world.log[start:])
        proxy_open = sorted((fd, s.name) for fd, s in sim.world.fds.items() if s.name[:1].islower())
        counts.append(len(proxy_open))
        if not sim.alive:
            break
    census = {'open': ['%s#%d' % (n, fd) for fd, n in proxy_open], 'sel': sorted(sim.ex.selector.map), 'works': len(sim.ex.works),
              'regs': len(sim.ex.registered_events_by_work_ids), 'unfinished': len(sim.ex.unfinished)}
    return first_log, census, counts[-1] - counts[0], sim.alive, repr(sim.loop_error)[:120] if sim.loop_error else ''


def proc_tree(pid):
    out, todo = [], [pid]
    while todo:
        p = todo.pop()
        out.append(p)
        try:
            for t in os.listdir('/proc/%d/task' % p):
                kids = open('/proc/%d/task/%s/children' % (p, t)).read().split()
                todo += [int(k) for k in kids]
        except OSError:
            pass
    return out


def fd_census(pids):
    n = {}
    for p in pids:
        try:
            n[p] = len(os.listdir('/proc/%d/fd' % p))
        except OSError:
            n[p] = -1
    return n


def realnet_histories(port, oport, tls, cafile):
    """One round of connection histories against a REAL proxy process (kernel sockets)."""
    import socket
    import ssl
    import struct

    def conn():
        return socket.create_connection(('127.0.0.1', port), timeout=5)

    def wrap(s):
        if not tls:
            return s
        ctx = ssl.create_default_context(cafile=cafile)
        return ctx.wrap_socket(s, server_hostname='localhost')
    # 1. a complete request (web server 404)
    try:
        s = wrap(conn())
        s.sendall(b'GET /nothing HTTP/1.1\r\nHost: x\r\n\r\n')
        realnet.read_quiet(s, quiet=0.3, first=3.0)
        s.close()
    except OSError:
        pass
    # 2. connect and close at once
    conn().close()
    # 3. plain garbage (a failed TLS handshake when the proxy terminates TLS), then close
    try:
        s = conn()
        s.sendall(b'\x00\x01garbage that is neither TLS nor HTTP\r\n\r\n')
        realnet.read_quiet(s, quiet=0.3, first=1.0)
        s.close()
    except OSError:
        pass
    # 4. partial request, then reset
    try:
        s = conn()
        s.sendall(b'POST http://127.0.0.1:%d/x HTTP/1.1\r\nContent-Length: 100\r\n\r\npartial' % oport)
        s.setsockopt(socket.SOL_SOCKET, socket.SO_LINGER, struct.pack('ii', 1, 0))
        s.close()
    except OSError:
        pass
    # 5. forward proxy request to an origin, client closes after the response
    try:
        s = wrap(conn())
        s.sendall(b'GET http://127.0.0.1:%d/r HTTP/1.1\r\nHost: o\r\n\r\n' % oport)
        realnet.read_quiet(s, quiet=0.3, first=3.0)
        s.close()
    except OSError:
        pass
    # 6. CONNECT tunnel, some bytes, client closes
    try:
        s = wrap(conn())
        s.sendall(b'CONNECT 127.0.0.1:%d HTTP/1.1\r\nHost: o\r\n\r\n' % oport)
        realnet.read_quiet(s, quiet=0.3, first=3.0)
        s.sendall(b'GET /t HTTP/1.1\r\nHost: o\r\n\r\n')
        realnet.read_quiet(s, quiet=0.3, first=3.0)
        s.close()
    except OSError:
        pass


def realnet_census(chk, quick):
    """Descriptor census of REAL proxy processes (local and remote executors, with and without TLS termination): the set of open
    descriptors of every process of the proxy must not grow when the histories are repeated."""
    import time
    d = tlsfix.ensure()
    origin = realnet.Origin(b'O')
    cases, descs = [], {}
    try:
        for mode in ('local', 'remote'):
            for tls in (False, True):
                extra = ['--enable-web-server', '--timeout', '1']
                if tls:
                    extra += ['--key-file', os.path.join(d, 'trusted-key.pem'), '--cert-file', os.path.join(d, 'trusted-cert.pem')]
                px = realnet.ProxyProc(mode, extra=extra, acceptors=1, workers=1)
                try:
                    ca = os.path.join(d, 'octa-cert.pem')
                    realnet_histories(px.port, origin.port, tls, ca)            # warm-up round (lazy imports, first-use descriptors)
                    realnet_histories(px.port, origin.port, tls, ca)
                    time.sleep(3.0)
                    pids = proc_tree(px.p.pid)
                    before = fd_census(pids)
                    rounds = 4 if quick else 12
                    for _ in range(rounds):
                        realnet_histories(px.port, origin.port, tls, ca)
                    time.sleep(3.5)                                             # idle timeout 1 s + reaper period
                    after = fd_census(pids)
                finally:
                    px.stop()
                growth = sum(max(0, after[p] - before[p]) for p in pids if before[p] >= 0 and after[p] >= 0)
                cid = len(cases) + 1
                cases.append({'id': 100000 + cid, 'ev': [{'e': 'end', 'fd': 0, 'gc': False, 'res': 'ok', 'name': ''}],
                              'census': {'open': [], 'sel': [], 'works': 0, 'regs': 0, 'unfinished': 0}, 'growth': growth})
                descs[100000 + cid] = {'history': 'RealNet census: %s executor%s, %d rounds of 6 connection histories' % (mode, ', TLS termination' if tls else '', rounds),
                                       'role': 'realnet-' + mode + ('-tls' if tls else ''), 'loop_alive': True, 'loop_error': '',
                                       'descriptors_before': {str(k): v for k, v in before.items()}, 'descriptors_after': {str(k): v for k, v in after.items()}}
    finally:
        origin.stop()
    return cases, descs


def pool_generate(num, seed):
    import shutil
    import tempfile
    from harness import tlaval
    tmp = tempfile.mkdtemp(prefix='pool-gen-')
    try:
        r = tlc.run('Pool', cfg_text='SPECIFICATION Spec\nCONSTANTS\n Addr = {"a", "b"}\n MAXC = 3\n UNAMBIG = TRUE\nCHECK_DEADLOCK FALSE\n', workers=1, timeout=300,
                    simulate='file=%s/b,num=%d' % (tmp, num), depth=14, seed=seed)
        if r.status != 'ok':
            raise MachineryError('pool behaviour generation failed:\n' + r.brief())
        out, seen = [], set()
        for _f, b in tlaval.behaviours(tmp + '/b'):
            steps, prev = [], b[0][2]

            def P(state, k):
                pl = state['pool']
                return pl[k - 1] if isinstance(pl, (tuple, list)) else pl[k]
            for act, _p, st in b[1:]:
                a, c = '', 0
                if act == 'Acquire':
                    newc = [k for k in st['known'] if k not in prev['known']]
                    c = newc[0] if newc else [k for k in st['known'] if P(st, k)['st'] != P(prev, k)['st']][0]
                    a = P(st, c)['addr']
                elif act in ('Retain',):
                    c = [k for k in st['known'] if P(st, k)['st'] != P(prev, k)['st']][0]
                elif act == 'Release':
                    c = [k for k in prev['known'] if k not in st['known']][0]
                elif act == 'PeerEnds':
                    c = [k for k in st['readable'] if k not in prev['readable']][0]
                steps.append((act, a, c))
                prev = st
            key = tuple(steps)
            if key in seen or not steps:
                continue
            seen.add(key)
            out.append(steps)
        return out, r
    finally:
        shutil.rmtree(tmp, ignore_errors=True)


def pool_execute(steps):
    """One behaviour on the REAL UpstreamConnectionPool over SimNet sockets.  The model's connection ids are creation order; which
    reusable connection the real pool hands out is observed (and bound in the trace specification)."""
    from harness import simdrive
    from proxy.core.connection import UpstreamConnectionPool
    sim = simdrive.Sim(args=[])
    pool = UpstreamConnectionPool()
    conns = []          # created TcpServerConnection objects, in creation order (real index = position + 1)
    m2r = {}            # model connection id -> real index.  Which of several reusable connections to one address is handed out is
                        # the pool's choice (set iteration order); the model's ids are renamed accordingly (they are symmetric)
    out = []
    loop = simdrive.shared_loop()

    def r2m(r):
        for m, x in m2r.items():
            if x == r:
                return m
        return 100 + r

    for act, a, c in steps:
        exc = ''
        obs_c = c
        try:
            if act == 'Acquire':
                created, conn = pool.acquire((a + '.example', 80))
                if created:
                    conns.append(conn)
                    m2r.setdefault(c, len(conns))
                    obs_c = r2m(len(conns))
                else:
                    obs_c = r2m(conns.index(conn) + 1)
            elif act == 'Retain':
                pool.retain(conns[m2r[c] - 1])
            elif act == 'Release':
                pool.release(conns[m2r[c] - 1])
            elif act == 'PeerEnds':
                sim.upstreams[m2r[c] - 1].close()
            elif act == 'Sweep':
                ev = loop.run_until_complete(pool.get_events())
                ready = [fd for fd in ev if sim.world.fds.get(fd) is not None and sim.world.fds[fd].readable()]
                loop.run_until_complete(pool.handle_events(ready, []))
        except Exception as e:     # noqa
            exc = type(e).__name__ + ': ' + str(e)[:80]
        known = sorted(r2m(conns.index(x) + 1) for x in pool.connections.values() if x in conns)
        inpools = sorted(r2m(conns.index(x) + 1) for s_ in pool.pools.values() for x in s_ if x in conns)
        out.append({'act': act, 'a': a, 'c': obs_c, 'obs': {'exc': exc if known == inpools else (exc or 'pool tables disagree: connections %s, pools %s' % (known, inpools)),
                                                         'known': known, 'inuse': sorted(r2m(i + 1) for i, x in enumerate(conns) if r2m(i + 1) in known and not x.is_reusable()),
                                                         'closed': sorted(r2m(i + 1) for i, x in enumerate(conns) if x.closed)}})
        if exc:
            break
    return out


def threaded_shutdown_histories():
    """Threaded mode: HttpProtocolHandler.run() leaves its loop and shutdown() flushes what is pending for the client with the
    blocking _flush(); the client has meanwhile gone away, which the proxy learns only there (broken pipe / reset / other errno).
    Whatever the flush meets, the upstream socket has to be closed by the proxy.  -> [(description, events, census)]"""
    import errno
    import gc
    out = []
    errs = [('BrokenPipeError', lambda: BrokenPipeError(errno.EPIPE, 'pipe')), ('ConnectionResetError', lambda: ConnectionResetError(errno.ECONNRESET, 'reset')),
            ('OSError-ETIMEDOUT', lambda: OSError(errno.ETIMEDOUT, 'timed out')), ('none', None)]
    for name, mk in errs:
        conv = scen.Conversation(args=[], threaded=True)
        sim = conv.sim
        c = conv.client()
        c.sock.cap = 10
        conv.step(('c', b'GET http://a.example/x HTTP/1.1\r\nHost: a.example\r\n\r\n'))
        if not sim.upstreams:
            continue
        sim.upstreams[0].write(b'HTTP/1.1 200 OK\r\nContent-Length: 3000\r\n\r\n' + b'x' * 3000)
        sim.tick(3)
        h = sim.live_handler()
        if h is None:
            continue
        if mk is not None:
            c.proxy_side.arm('send', mk())
        c.sock.cap = 1 << 20
        while c.read():
            pass
        try:
            h.shutdown()
        except Exception:       # noqa: run() would log it; what counts is what is left open
            pass
        sim.handlers[:] = []
        del h
        gc.collect()
        proxy_open = sorted((fd, s_.name) for fd, s_ in sim.world.fds.items() if s_.name[:1].islower())
        census = {'open': ['%s#%d' % (n, fd) for fd, n in proxy_open], 'sel': [], 'works': 0, 'regs': 0, 'unfinished': 0}
        out.append(('threaded mode: final flush in shutdown() meets %s' % name, to_events(list(sim.world.log)), census))
    return out


def _history_job(job):
    role, script, how = job
    log, census, growth, alive, err = run_history(role, script, how)
    return to_events(log), census, growth, alive, err


def to_events(log):
    out = []
    for e in log:
        ev = e['ev']
        if ev == 'open':
            out.append({'e': 'open', 'fd': e['fd'], 'gc': False, 'res': 'ok', 'name': e['s']})
        elif ev == 'close' and e.get('s', '')[:1].islower():
            gcflag = bool(e.get('gc')) and bool(e.get('connected'))
            out.append({'e': 'close', 'fd': e['fd'], 'gc': gcflag, 'res': 'ok', 'name': e['s']})
        elif ev == 'sel':
            if e['op'] == 'register':
                out.append({'e': 'reg', 'fd': e['fd'], 'gc': False, 'res': e['res'], 'name': ''})
            elif e['op'] == 'unregister':
                out.append({'e': 'unreg', 'fd': e['fd'], 'gc': False, 'res': e['res'], 'name': ''})
            elif e['op'] == 'modify' and e['res'] == 'FileNotFoundError':
                out.append({'e': 'dropped', 'fd': e['fd'], 'gc': False, 'res': 'ok', 'name': ''})
    out.append({'e': 'end', 'fd': 0, 'gc': False, 'res': 'ok', 'name': ''})
    return out


def run(chk):
    quick = chk.tier == 'quick'
    rnd = random.Random(chk.seed * 59 + 11)
    r = tlc.run('Resources', 'Resources.cfg', workers=8, timeout=600)
    chk.add_tlc('Resources FD=100..102 (discipline, exhaustive)', r, exhaustive=True)
    chk.require_ok('Resources', r)
    cases, descs = [], {}
    hist = c05.adversaries(rnd, quick)
    # plus plain complete exchanges in every role
    for role in ('forward', 'tunnel', 'web', 'reverse'):
        for desc, rl, script, how in list(hist):
            if rl == role and 'two keep-alive' in desc:
                break
    from harness.common import pmap
    outcomes = pmap(_history_job, [(role, script, how) for _d, role, script, how in hist], chunksize=4)
    for (desc, role, script, how), (log, census, growth, alive, err) in zip(hist, outcomes):
        cid = len(cases) + 1
        cases.append({'id': cid, 'ev': log, 'census': census, 'growth': growth})
        descs[cid] = {'history': desc, 'role': role, 'loop_alive': alive, 'loop_error': err, 'upstream': how,
                      'script': [[x.decode('latin1')[:400] if isinstance(x, bytes) else x for x in st] for st in script]}
    for desc, log, census in threaded_shutdown_histories():
        cid = len(cases) + 1
        cases.append({'id': cid, 'ev': log, 'census': census, 'growth': 0})
        descs[cid] = {'history': desc, 'role': 'forward/threaded', 'loop_alive': True, 'loop_error': '', 'upstream': 'accept', 'script': []}
    # ---- the upstream connection pool (not anchored in a listed property; part of "what is opened is closed") -------------------
    r = tlc.run('Pool', 'Pool.cfg', workers=8, timeout=300)
    chk.add_tlc('Pool (acquire / retain / release / sweep, exhaustive)', r, exhaustive=True)
    chk.require_ok('Pool', r)
    behs, g = pool_generate(1500 if quick else 12000, chk.seed * 7 + 3)
    chk.add_tlc('Pool -simulate', g)
    ptraces = [{'id': n + 1, 'steps': pool_execute(b)} for n, b in enumerate(behs)]
    presults, prej = tlc.run_sharded('TracePool', 'TracePool.cfg', ptraces, shards=16, timeout=600)
    pm = tlc.Merged(presults)
    chk.add_tlc('TracePool (%d executions of the real UpstreamConnectionPool)' % len(ptraces), pm)
    if pm.status == 'failed' or any(x.status == 'violated' for x in presults):
        raise MachineryError('TracePool: ' + (pm.brief() if pm.status == 'failed' else [x for x in presults if x.status == 'violated'][0].brief()))
    chk.traces(len(ptraces))
    for tid, rest in prej:
        idx, clause = rest.split('|', 1)
        acts = [(s_['act'], s_['a'], s_['c']) for s_ in ptraces[tid - 1]['steps'][:int(idx)]]
        chk.violation({'kind': 'connection pool', 'clause': clause.split(' after ')[0][:60]}, 'pool history %s: %s' % (acts, clause), {'steps': ptraces[tid - 1]['steps'][:int(idx)]})
    rcases, rdescs = realnet_census(chk, quick)
    cases += rcases
    descs.update(rdescs)
    results, rej = tlc.run_sharded('TraceRes', 'TraceRes.cfg', cases, shards=16, timeout=1200)
    m = tlc.Merged(results)
    chk.add_tlc('TraceRes (%d connection histories x 3 repetitions)' % len(cases), m)
    if m.status == 'failed' or any(x.status == 'violated' for x in results):
        raise MachineryError('TraceRes: ' + (m.brief() if m.status == 'failed' else [x for x in results if x.status == 'violated'][0].brief()))
    chk.traces(len(cases))
    byid = {c['id']: c for c in cases}
    for cid, rest in rej:
        idx, clause = rest.split('|', 1)
        if clause.startswith('machinery'):
            raise MachineryError('case %d (%s): %s' % (cid, descs[cid], clause))
        d, c = descs[cid], byid[cid]
        import re
        kind = re.sub(r'\d+', 'N', clause.split(':')[0])[:90]
        sig = {'kind': kind, 'role': d['role'], 'two_requests': 'two keep-alive' in d['history'], 'loop_died': not d['loop_alive']}
        chk.violation(sig, '%s: %s' % (d['history'], clause), {'case': d, 'census': c['census'], 'growth': c['growth'],
                                                             'events': c['ev'][max(0, int(idx) - 10):int(idx)]})
    chk.cov['histories'] = len(cases)
    chk.sample({'history': descs[1], 'events': cases[0]['ev'][:12], 'census': cases[0]['census']})
    chk.assume('descriptor numbering, finalisers and selector behaviour are those of harness/simnet.py (lowest free number, refcount finalisation, '
               'epoll-like modify/unregister errors)',
               'a socket that was created but never connected (failed connect) may be reclaimed by the finaliser; a CONNECTED socket must be '
               'closed by the proxy itself',
               'remote executors (descriptor passing, os.close(work_id)) and TLS termination are exercised on RealNet by a descriptor census of '
               'every process of a real proxy (/proc/<pid>/fd) before and after repeated histories')


if __name__ == '__main__':
    main(run, 'C10')
