"""C10 - every connection's resources are released exactly once, however it ends.

(S) spec/Resources.tla: the descriptor discipline of one connection (open / register / unregister / close / end, descriptor
    NUMBERS being reused by the kernel); TLC exhaustive: NoResidue, NeverTwice.
(R) connection histories = every script of every role x every prefix x every kind of abort (client close / reset /
    half-close, upstream close / reset, connect refusal / timeout / resolution failure / unreachable, injected socket errors
    at every call) plus grammar-mutated inputs, executed on the REAL handler stack (SimNet: lowest-free descriptor numbers,
    CPython-like finalisers, epoll-like selector); then the connection is ended (client closes, idle timeout passes, reaper
    runs), garbage is collected and a census is taken; every history is repeated three times on the same worker.
(V) spec/TraceRes.tla steps the descriptor-level event log through Resources.tla and judges the final census.
"""
import gc
import random

from harness import tlc, scen
from harness.common import main, MachineryError
from checks import c05


def run_history(role, script, how, reps=3):
    args, opts = c05.role_setup(role)
    conv = scen.Conversation(args=args + ['--timeout', '5'], flag_opts=opts or None,
                             origins={'a.example': how, ('a.example', 80): how, ('a.example', 443): how})
    sim = conv.sim
    errs = dict(c05.ERRORS)
    first_log, counts = None, []
    for rep in range(reps):
        start = len(sim.world.log)
        c = conv.client(addr=('192.0.2.66', 6000 + rep))
        ups0 = len(sim.upstreams)
        for st in script:
            ups = sim.upstreams[ups0:]
            if st[0] == 'arm':
                _, which, op, ename = st
                target = None
                if which == 'c':
                    ps = c.proxy_side
                    target = ps if ps is not None and not ps.closed else None
                elif ups:
                    target = ups[0].sock.peer
                if target is not None and not target.closed:
                    target.arm(op, errs[ename]())
            elif st[0] == 'c':
                if not c.closed:
                    c.write(st[1])
            elif st[0] == 'u':
                ui = min(st[1], len(ups)) - 1
                if ups and not ups[ui].closed:
                    ups[ui].write(st[2])
            elif st[0] in ('cclose', 'creset', 'cshut'):
                getattr(c, {'cclose': 'close', 'creset': 'reset', 'cshut': 'shut_wr'}[st[0]])()
            elif st[0] in ('uclose', 'ureset', 'ushut'):
                if ups:
                    getattr(ups[0], {'uclose': 'close', 'ureset': 'reset', 'ushut': 'shut_wr'}[st[0]])()
            conv.settle()
            if not sim.alive:
                break
        # the connection ends: the client goes away, the idle timeout passes, the reaper runs
        if not c.closed:
            c.close()
        conv.settle()
        sim.world.now += 11
        sim.reap()
        conv.settle()
        for p in sim.upstreams[ups0:]:
            if not p.closed:
                p.close()
        conv.settle()
        del c
        gc.collect()
        if rep == 0:
            first_log = list(sim.world.log[start:])
        proxy_open = sorted((fd, s.name) for fd, s in sim.world.fds.items() if s.name[:1].islower())
        counts.append(len(proxy_open))
        if not sim.alive:
            break
    census = {'open': ['%s#%d' % (n, fd) for fd, n in proxy_open], 'sel': sorted(sim.ex.selector.map), 'works': len(sim.ex.works),
              'regs': len(sim.ex.registered_events_by_work_ids), 'unfinished': len(sim.ex.unfinished)}
    return first_log, census, counts[-1] - counts[0], sim.alive, repr(sim.loop_error)[:120] if sim.loop_error else ''


def to_events(log):
    out = []
    for e in log:
        ev = e['ev']
        if ev == 'open':
            out.append({'e': 'open', 'fd': e['fd'], 'gc': False, 'res': 'ok', 'name': e['s']})
        elif ev == 'close' and e.get('s', '')[:1].islower():
            gcflag = bool(e.get('gc')) and bool(e.get('connected'))
            out.append({'e': 'close', 'fd': e['fd'], 'gc': gcflag, 'res': 'ok', 'name': e['s']})
        elif ev == 'sel':
            if e['op'] == 'register':
                out.append({'e': 'reg', 'fd': e['fd'], 'gc': False, 'res': e['res'], 'name': ''})
            elif e['op'] == 'unregister':
                out.append({'e': 'unreg', 'fd': e['fd'], 'gc': False, 'res': e['res'], 'name': ''})
            elif e['op'] == 'modify' and e['res'] == 'FileNotFoundError':
                out.append({'e': 'dropped', 'fd': e['fd'], 'gc': False, 'res': 'ok', 'name': ''})
    out.append({'e': 'end', 'fd': 0, 'gc': False, 'res': 'ok', 'name': ''})
    return out


def run(chk):
    quick = chk.tier == 'quick'
    rnd = random.Random(chk.seed * 59 + 11)
    r = tlc.run('Resources', 'Resources.cfg', workers=8, timeout=600)
    chk.add_tlc('Resources FD=100..102 (discipline, exhaustive)', r, exhaustive=True)
    chk.require_ok('Resources', r)
    cases, descs = [], {}
    hist = c05.adversaries(rnd, quick)
    # plus plain complete exchanges in every role
    for role in ('forward', 'tunnel', 'web', 'reverse'):
        for desc, rl, script, how in list(hist):
            if rl == role and 'two keep-alive' in desc:
                break
    for desc, role, script, how in hist:
        log, census, growth, alive, err = run_history(role, script, how)
        cid = len(cases) + 1
        cases.append({'id': cid, 'ev': to_events(log), 'census': census, 'growth': growth})
        descs[cid] = {'history': desc, 'role': role, 'loop_alive': alive, 'loop_error': err}
    results, rej = tlc.run_sharded('TraceRes', 'TraceRes.cfg', cases, shards=16, timeout=1200)
    m = tlc.Merged(results)
    chk.add_tlc('TraceRes (%d connection histories x 3 repetitions)' % len(cases), m)
    if m.status == 'failed' or any(x.status == 'violated' for x in results):
        raise MachineryError('TraceRes: ' + (m.brief() if m.status == 'failed' else [x for x in results if x.status == 'violated'][0].brief()))
    chk.traces(len(cases))
    byid = {c['id']: c for c in cases}
    for cid, rest in rej:
        idx, clause = rest.split('|', 1)
        if clause.startswith('machinery'):
            raise MachineryError('case %d (%s): %s' % (cid, descs[cid], clause))
        d, c = descs[cid], byid[cid]
        import re
        kind = re.sub(r'\d+', 'N', clause.split(':')[0])[:90]
        sig = {'kind': kind, 'role': d['role'], 'two_requests': 'two keep-alive' in d['history'], 'loop_died': not d['loop_alive']}
        chk.violation(sig, '%s: %s' % (d['history'], clause), {'case': d, 'census': c['census'], 'growth': c['growth'],
                                                             'events': c['ev'][max(0, int(idx) - 10):int(idx)]})
    chk.cov['histories'] = len(cases)
    chk.sample({'history': descs[1], 'events': cases[0]['ev'][:12], 'census': cases[0]['census']})
    chk.assume('descriptor numbering, finalisers and selector behaviour are those of harness/simnet.py (lowest free number, refcount finalisation, '
               'epoll-like modify/unregister errors)',
               'a socket that was created but never connected (failed connect) may be reclaimed by the finaliser; a CONNECTED socket must be '
               'closed by the proxy itself',
               'remote executors (descriptor passing, os.close(work_id)) are not exercised on SimNet')


if __name__ == '__main__':
    main(run, 'C10')
