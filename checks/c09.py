"""C09 - plugins run in configured order with the documented chaining semantics; lifecycle hooks exactly once.

(S) spec/PluginChain.tla: design model of the plugin chain of one connection (before_upstream_connection -> connect ->
    handle_client_request -> forward -> handle_upstream_chunk -> access-log chain -> on_upstream_connection_close),
    over PROGRAMS (what each plugin does in each hook) x auth x endings.
(M) TLC exhaustive: ChainOrder, SeenChain, DropSuppresses, RejectClean, BadAuthClean, LifecycleOnce on every state.
(G) tlc -simulate -> behaviours; each names a program, an auth situation and an ending.
(R) plugin classes are synthesised from the program (harness/testplugins.program_plugins), the REAL handler +
    HttpProxyPlugin run the conversation on SimNet; hook calls (with the request modifications seen on entry), connects,
    forwarded requests and client output are recorded.
(V) spec/TraceChain.tla steps the recorded call log through the actions of PluginChain.tla.
"""
import base64
import random
import re
import shutil
import tempfile

from harness import tlc, tlaval, scen, testplugins
from harness.common import main, MachineryError

CRED = b'u:p'


def generate(NP, NREQ, MAXDEV, num, seed):
    tmp = tempfile.mkdtemp(prefix='chain-gen-')
    try:
        r = tlc.run('PluginChain', cfg_text='SPECIFICATION Spec\nCHECK_DEADLOCK FALSE\n',
                    constants={'NP': NP, 'NREQ': NREQ, 'MAXDEV': MAXDEV}, workers=1, timeout=900,
                    simulate='file=%s/b,num=%d' % (tmp, num), depth=45, seed=seed)
        if r.status != 'ok':
            raise MachineryError('behaviour generation failed:\n' + r.brief())
        out, seen = [], set()
        for _f, b in tlaval.behaviours(tmp + '/b'):
            st = b[0][2]
            prog = [st['prog'][k + 1] for k in range(NP)] if isinstance(st['prog'], dict) else list(st['prog'])
            key = repr((prog, st['auth'], st['ending']))
            if key in seen:
                continue
            seen.add(key)
            out.append({'prog': [dict(x) for x in prog], 'auth': st['auth'], 'ending': st['ending'], 'model_steps': len(b),
                        'model_final': b[-1][2]})
        return out, r
    finally:
        shutil.rmtree(tmp, ignore_errors=True)


def request(k, auth, binary=False):
    h = b'GET http://h.example/r%d HTTP/1.1\r\nHost: h.example\r\n' % k
    if binary:          # a field value that is not UTF-8: nothing in the chain semantics depends on it, the access log has to cope
        h += b'User-Agent: \xff\xfe agent\r\n'
    if auth == 'ok':
        h += b'Proxy-Authorization: Basic ' + base64.b64encode(CRED) + b'\r\n'
    elif auth == 'bad':
        h += b'Proxy-Authorization: Basic ' + base64.b64encode(b'u:wrong') + b'\r\n'
    return h + b'\r\n'


def split_requests(raw):
    out = []
    for part in raw.split(b'\r\n\r\n'):
        if not part.strip():
            continue
        m = re.match(rb'GET /r(\d+) ', part)
        tags = [[int(a), b.decode()] for a, b in re.findall(rb'(?im)^x-tag-(\d+)-(\w+):', part)]
        out.append([int(m.group(1)) if m else 0, tags])
    return out


def classify_client(raw):
    """Client bytes -> sequence of output items in the vocabulary of PluginChain.out (bookkeeping, no judgement)."""
    out = []
    while raw:
        head, sep, rest = raw.partition(b'\r\n\r\n')
        if not sep:
            out.append(['other'])
            break
        line = head.split(b'\r\n')[0]
        parts = line.split(b' ', 2)
        code = parts[1] if len(parts) > 1 else b''
        cl = re.search(rb'(?im)^content-length:\s*(\d+)', head)
        n = int(cl.group(1)) if cl else len(rest)
        body, raw = rest[:n], rest[n:]
        if code == b'418':
            m = re.match(rb'R-(\d+)-(\w+)', parts[2] if len(parts) > 2 else b'')
            out.append(['rej', int(m.group(1)), m.group(2).decode()] if m else ['other'])
        elif code in (b'502', b'407'):
            out.append([code.decode()])
        elif code == b'200':
            out.append(['resp', [int(chr(c)) for c in body if chr(c).isdigit()]])
        else:
            out.append(['other'])
    return out


def execute(case, NP, NREQ, rnd, threaded=False):
    log = []
    plugins = testplugins.program_plugins(case['prog'], log)
    args = ['--basic-auth', CRED.decode()] if case['auth'] != 'off' else []
    conv = scen.Conversation(args=args, flag_opts={'plugins': plugins},
                             default_origin='refuse' if case['ending'] == 'refused' else 'accept', threaded=threaded)
    c = conv.client()
    resp = b'HTTP/1.1 200 OK\r\nContent-Length: %d\r\n\r\n' % NP + b'_' * NP
    ending = case['ending']
    style = rnd.choice(['one', 'two', 'crlf'])
    binary = rnd.random() < 0.25
    answered = 0

    def origin_requests():
        return len(split_requests(conv.sim.upstreams[0].got)) if conv.sim.upstreams else 0
    for k in range(1, NREQ + 1):
        # (without an upstream connection every further SEGMENT goes through the handle_client_data chain: one segment per request)
        for piece in scen.pieces(request(k, case['auth'], binary), rnd, style if k == 1 or conv.sim.upstreams else 'one'):
            conv.step(('c', piece))
        if c.eof_seen or c.reset_seen:
            break
        if ending == 'cabort':
            break
        if ending == 'uabort':
            if conv.sim.upstreams:
                conv.step(('uclose', 1))
            break
        if ending == 'refused':
            break
        if not conv.sim.upstreams:
            if ending == 'normal' and not conv.sim.world.connects:
                continue            # no upstream was wanted (a plugin said so): the client goes on sending
            break
        if origin_requests() > answered:
            answered = origin_requests()
            conv.step(('u', 1, resp))
        if c.eof_seen:
            break
    ceof_before_own_close = c.eof_seen
    if not c.closed:
        conv.step(('cclose',))
    t = conv.transcript()
    ugot = t['upstreams'][0]['got'] if t['upstreams'] else b''
    dest = 0
    if t['connects']:
        h = t['connects'][0]['host']
        dest = int(h.rsplit('.', 1)[1]) if h.startswith('10.9.0.') else 0 if h == 'h.example' else -1
    return {'calls': log, 'nconnect': len(t['connects']), 'dest': dest, 'fwd': split_requests(ugot), 'out': classify_client(t['clients'][0]['got']),
            'ceof': ceof_before_own_close, 'alive': t['alive'], 'loop_error': t['loop_error']}


def run(chk):
    quick = chk.tier == 'quick'
    rnd = random.Random(chk.seed * 23 + 6)
    plan = [(2, 3, 2, 500 if quick else 4000), (3, 3, 1, 250 if quick else 2500), (1, 3, 4, 120 if quick else 400)]
    for NP, NREQ, MAXDEV, num in plan:
        c = {'NP': NP, 'NREQ': NREQ, 'MAXDEV': MAXDEV}
        if not (quick and NP == 3):
            r = tlc.run('PluginChain', 'PluginChain.cfg', constants=c, workers=16, timeout=1200)
            chk.add_tlc('PluginChain NP=%d NREQ=%d MAXDEV=%d (design invariants, exhaustive)' % (NP, NREQ, MAXDEV), r, exhaustive=True)
            chk.require_ok('PluginChain', r)
        cases, g = generate(NP, NREQ, MAXDEV, num, chk.seed * 7 + NP)
        chk.add_tlc('PluginChain -simulate NP=%d' % NP, g)
        traces = []
        for n, case in enumerate(cases):
            obs = execute(case, NP, NREQ, rnd, threaded=(n % 4 == 2))
            if not obs['alive']:
                chk.notes.append('executor loop died for program %s: %s (reported under C05)' % (case['prog'], obs['loop_error']))
            traces.append({'id': n + 1, 'prog': case['prog'], 'auth': case['auth'], 'ending': case['ending'], 'calls': obs['calls'],
                           'nconnect': obs['nconnect'], 'dest': obs['dest'], 'fwd': obs['fwd'], 'out': obs['out'], 'ceof': obs['ceof']})
        results, rej = tlc.run_sharded('TraceChain', 'TraceChain.cfg', traces, shards=16, timeout=1200, constants=c)
        m = tlc.Merged(results)
        chk.add_tlc('TraceChain NP=%d (%d executions)' % (NP, len(traces)), m)
        if m.status != 'ok':
            raise MachineryError('TraceChain NP=%d: ' % NP + (m.brief() if m.status == 'failed' else
                                 'a design invariant was violated on a validated trace:\n' + [x for x in results if x.status == 'violated'][0].brief()))
        chk.traces(len(traces))
        for tid, clause in rej:
            t = traces[tid - 1]
            dev = sorted({'%s=%s' % (h, b[h]) for b in t['prog'] for h in b if b[h] != 'pass'})
            sig = {'clause': clause.split(':')[0].split(' of the execution')[0][:60], 'deviations': dev, 'ending': t['ending']}
            chk.violation(sig, 'NP=%d program %s auth=%s ending=%s: %s' % (NP, t['prog'], t['auth'], t['ending'], clause), {'trace': t})
        for t in traces[:2]:
            chk.sample({'NP': NP, 'program': t['prog'], 'auth': t['auth'], 'ending': t['ending'], 'calls': t['calls'][:12], 'forwarded': t['fwd'],
                        'client_output': t['out']})
    chk.assume('the origin answers each forwarded request before the client sends the next one (lock step)',
               'rejection in handle_client_request happens after the upstream connection exists (documented hook order): the property '
               'clause "without contacting upstream" is read as "nothing of the request is forwarded" there and as "no connection" for '
               'before_upstream_connection',
               'programs are bounded: at most MAXDEV hooks per plugin deviate from pass-through')


if __name__ == '__main__':
    main(run, 'C09')
