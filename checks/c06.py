"""C06 - any input yields service, a well-formed error response, or a clean close.

Handler half  (spec/TraceInput.tla): token-level mutations of valid requests (bad request lines, unknown schemes, SIP,
    header lines without colon, non-numeric / negative / huge lengths, bare LF, NUL, non-UTF-8 bytes, truncations,
    concatenations, random bytes) in the forward, tunnel and web roles, each under several segmentations, through the
    REAL handler on SimNet.  TLC parses everything the client received with the reference parser (Http.tla).
Builder half  (spec/TraceCodec.tla, op "response"): the argument space of okResponse (compression threshold from both
    sides, reused header dictionaries), redirects, HttpRequestRejected.response, the canned packets.
"""
import gzip
import itertools
import random

from harness import tlc, scen
from harness.common import main, MachineryError
from checks.c15 import extract

RESP = b'HTTP/1.1 200 OK\r\nContent-Length: 2\r\n\r\nok'


STALLERS = [
    b'POST http://h.example/up HTTP/1.1\r\nHost: h.example\r\nContent-Length: 3\r\nContent-Length: 0\r\n\r\nabcdefghij',
    b'POST http://h.example/up HTTP/1.1\r\nHost: h.example\r\nContent-Length: 3\r\nContent-Length: -5\r\n\r\nabcdefghij',
    b'POST /up HTTP/1.1\r\nHost: h.example\r\nContent-Length: 3\r\nContent-Length: 0\r\n\r\nabcdefghij',
    b'POST http://h.example/up HTTP/1.1\r\nHost: h.example\r\nTransfer-Encoding: chunked\r\n\r\n-3\r\nabcdefgh',
    b'POST /up HTTP/1.1\r\nHost: h.example\r\nTransfer-Encoding: chunked\r\n\r\n-3\r\nabcdefgh',
    b'POST http://h.example/up HTTP/1.1\r\nHost: h.example\r\nTransfer-Encoding: chunked\r\n\r\n3\r\nabc\r\n-1\r\nxyz\r\n0\r\n\r\n',
]


def inputs(rnd, n):
    lines = [b'GET http://h.example/x HTTP/1.1', b'POST http://h.example:8080/up HTTP/1.1', b'CONNECT h.example:443 HTTP/1.1',
             b'GET / HTTP/1.1', b'GET /missing HTTP/1.0', b'HEAD http://h.example/ HTTP/1.0']
    badlines = [b'INVITE sip:a@b SIP/2.0', b'GET /', b'GET', b'', b'GET ftp://h.example/x HTTP/1.1', b'GET http://h.example/x HTTP/9.9',
                b'GET  http://h.example/x  HTTP/1.1', b'get http://h.example/x http/1.1', b'GET http://h.example:notaport/ HTTP/1.1',
                b'GET http://[::1/ HTTP/1.1', b'GET http:///x HTTP/1.1', b'CONNECT h.example HTTP/1.1', b'CONNECT :443 HTTP/1.1',
                b'GET http://h.\xff\xfe.example/ HTTP/1.1', b'G\x00T / HTTP/1.1', b'GET /\xc3\x28 HTTP/1.1', b'\x16\x03\x01\x02\x00\x01\x00\x01\xfc\x03\x03',
                b'OPTIONS * HTTP/1.1', b'GET http://h.example/' + b'a' * 9000 + b' HTTP/1.1', b'PRI * HTTP/2.0', b'GET http://u:p@h.example/ HTTP/1.1',
                b'GET http://h.example:99999/ HTTP/1.1', b'GET http://h.example:-1/ HTTP/1.1', b'BREW coffee://pot HTCPCP/1.0']
    hdrs = [b'Host: h.example', b'X-A: 1', b'NoColonHere', b': empty-name', b'Content-Length: abc', b'Content-Length: -5',
            b'Content-Length: 99999999999999999999', b'Content-Length: 3', b'Transfer-Encoding: chunked', b'Transfer-Encoding: gzip, chunked',
            b'Transfer-Encoding: \xff', b'X-Bin: \x00\x01\xfe\xff', b'Connection: close', b'X' * 5000 + b': y', b' folded: line',
            b'Proxy-Authorization: Basic !!!', b'Upgrade: websocket', b'Connection: upgrade', b'Content-Length: 3\r\nContent-Length: 4',
            b'Content-Length: 3\r\nContent-Length: 0', b'Content-Length: 3\r\nContent-Length: -5', b'Content-Length: 0\r\nContent-Length: 3', b'content-length: 5\r\nCONTENT-LENGTH: 2']
    tails = [b'', b'abc', b'0\r\n\r\n', b'zz\r\nabc\r\n0\r\n\r\n', b'3\r\nabc', b'\xff\xff\xff', b'GET / HTTP/1.1\r\n\r\n']
    eols = [b'\r\n', b'\r\n', b'\r\n', b'\n', b'\r']
    out = [(x, 'input that stalled the parser once') for x in STALLERS]
    for k in range(n):
        mode = k % 6
        if mode == 0:       # valid line, mutated headers
            raw = rnd.choice(lines) + b'\r\n' + b''.join(h + rnd.choice(eols) for h in rnd.sample(hdrs, rnd.randrange(0, 4))) + b'\r\n' + rnd.choice(tails)
            kind = 'valid line / mutated headers'
        elif mode == 1:     # bad line
            raw = rnd.choice(badlines) + b'\r\n' + b''.join(h + b'\r\n' for h in rnd.sample(hdrs[:3], rnd.randrange(0, 3))) + b'\r\n'
            kind = 'bad request line'
        elif mode == 2:     # truncation of a valid request at a random byte
            full = rnd.choice(lines) + b'\r\nHost: h.example\r\nContent-Length: 3\r\n\r\nabc'
            raw = full[:rnd.randrange(0, len(full))]
            kind = 'truncated'
        elif mode == 3:     # random bytes
            raw = bytes(rnd.getrandbits(8) for _ in range(rnd.choice([1, 7, 40, 300]))) + rnd.choice([b'', b'\r\n\r\n'])
            kind = 'random bytes'
        elif mode == 5:     # framing fields spliced from a token vocabulary (signs, radix prefixes, blanks, repeated fields), token tails
            vals = [b'0', b'3', b'-5', b'5', b'+3', b' 7', b'00', b'1_0', b'0x3', b'1e1', b'chunked', b'Chunked', b'gzip, chunked', b'', b'3, 3']
            toks = [b'0\r\n\r\n', b'3\r\nabc\r\n', b'-3\r\n', b'+3\r\n', b'0x3\r\n', b' 3 \r\n', b'3;x=y\r\n', b'ffffffffffffffff\r\n', b'abc', b'\r\n', b'\n', b'\r',
                    b'\x00', b'\xff', b'GET / HTTP/1.1\r\n\r\n', b'1_0\r\n', b'00\r\n\r\n']
            raw = rnd.choice(lines) + b'\r\n' + b''.join(
                rnd.choice([b'Content-Length', b'content-length', b'Transfer-Encoding', b'Host', b'X']) + rnd.choice([b':', b': ', b' : ']) + rnd.choice(vals) + b'\r\n'
                for _ in range(rnd.randrange(0, 5))) + b'\r\n' + b''.join(rnd.choice(toks) for _ in range(rnd.randrange(0, 6)))
            kind = 'framing token splice'
        else:               # byte-level mutation of a valid request
            full = bytearray(rnd.choice(lines) + b'\r\nHost: h.example\r\nX-A: b\r\n\r\n')
            for _ in range(rnd.randrange(1, 4)):
                full[rnd.randrange(len(full))] = rnd.choice([0, 10, 13, 32, 58, 255, 47])
            raw = bytes(full)
            kind = 'byte mutation'
        out.append((raw, kind))
    return out


def one_input(job):
    raw, kind, role_args, role, style, threaded, seed = job
    rnd = random.Random(seed)
    conv = scen.Conversation(args=role_args, threaded=threaded)
    c = conv.client()
    if role.endswith('sends'):
        c.sock.cap = 40          # the wire towards the client takes 40 bytes at a time: partial writes and EAGAIN
    for piece in scen.pieces(raw, rnd, style) if raw else [b'']:
        if piece:
            conv.step(('c', piece))
    conv.step(('u', 1, RESP))           # an origin, if one was connected, answers
    conv.step(('tick', 3))
    t = conv.transcript()
    case = {'input': list(raw), 'cgot': list(t['clients'][0]['got']), 'ceof': t['clients'][0]['eof'],
            'nconnect': len(t['connects']), 'loopdied': not t['alive'],
            'tunnel': raw.startswith(b'CONNECT ') or ('--enable-proxy-protocol' in role_args and raw.partition(b'\n')[2].startswith(b'CONNECT '))}
    desc = {'kind': kind, 'role': role + (', threaded mode' if threaded else ''), 'segments': style, 'loop_error': t['loop_error']}
    return case, desc


def run_inputs(chk, quick):
    from harness.common import pmap, Hung
    rnd = random.Random(chk.seed * 31 + 9)
    jobs = []
    for raw, kind in inputs(rnd, 420 if quick else 12000):
        for role_args, role in (([], 'proxy'), (['--enable-web-server'], 'proxy+web'), (['--enable-web-server', '--max-sendbuf-size', '24'], 'proxy+web, 24-byte sends')):
            if role.endswith('sends') and rnd.random() > 0.4:
                continue
            style = rnd.choice(['one', 'two', 'few', 'crlf'])
            jobs.append((raw, kind, role_args, role, style, len(jobs) % 5 == 4, rnd.randrange(1 << 30)))
        if rnd.random() < 0.3:
            # the same handler behind --enable-proxy-protocol: a PROXY protocol line (valid, damaged, over-long, version 2, missing) first
            pre = rnd.choice([b'PROXY TCP4 192.168.0.1 192.168.0.11 56324 443\r\n', b'PROXY UNKNOWN\r\n', b'PROXY TCP6 ::1 ::2 1 2\r\n', b'',
                              b'PROXY FOO 1 2 3 4\r\n', b'PROXY TCP4 a b c d\r\n', b'PROXY TCP4 ' + b'1' * 60 + b' 2 3 4\r\n', b'PROXY TCP4 1.2.3.4\r\n',
                              b'\r\n\r\n\x00\r\nQUIT\n\x21\x11\x00\x0c' + bytes(12), b'PROXY TCP4 1.2.3.4 5.6.7.8 99999 -1\r\n', b'proxy tcp4 1.2.3.4 5.6.7.8 1 2\r\n',
                              b'PROXY TCP4 1.2.3.4 5.6.7.8 1 2\n', b'PROXY  TCP4  1.2.3.4 5.6.7.8 1 2\r\n'])
            jobs.append((pre + raw, kind + ' behind a PROXY protocol line', ['--enable-proxy-protocol'], 'proxy, --enable-proxy-protocol',
                         rnd.choice(['one', 'two', 'few', 'crlf']), len(jobs) % 5 == 4, rnd.randrange(1 << 30)))
    cases, descs = [], {}
    hung = 0
    for job, res in zip(jobs, pmap(one_input, jobs, watchdog=120)):
        if isinstance(res, Hung):
            # the proxy never came back from handling these bytes: the whole worker is stalled (also C05)
            hung += 1
            raw, kind, _args, role, style, threaded, _s = job
            where = [ln.strip() for ln in res.where.splitlines() if 'File' in ln][-2:]
            chk.violation({'clause': 'C06 handling the input never returned (worker stalled)', 'kind': kind},
                          '%s (%s, %s): the worker was still busy with this input after 120 s, in %s' % (kind, role, style, where),
                          {'input': raw.decode('latin1')[:500], 'role': role, 'segments': style, 'threaded': threaded, 'stack': res.where})
            continue
        case, desc = res
        cid = len(cases) + 1
        case['id'] = cid
        cases.append(case)
        descs[cid] = desc
    results, rej = tlc.run_sharded('TraceInput', 'TraceInput.cfg', cases, shards=16, timeout=1200)
    m = tlc.Merged(results)
    chk.add_tlc('TraceInput (%d connections)' % len(cases), m)
    if m.status == 'failed':
        raise MachineryError('TraceInput: ' + m.brief())
    chk.traces(len(cases))
    byid = {c['id']: c for c in cases}
    for cid, clause in rej:
        if clause.startswith('machinery'):
            raise MachineryError('case %d: %s' % (cid, clause))
        c, d = byid[cid], descs[cid]
        chk.violation({'clause': clause.split(' (')[0], 'kind': d['kind'], 'loop_error': (d['loop_error'] or '')[:40]},
                      '%s (%s, %s): %s' % (d['kind'], d['role'], d['segments'], clause),
                      {'case': d, 'input': bytes(c['input']).decode('latin1')[:500], 'client_got': bytes(c['cgot']).decode('latin1')[:500],
                       'client_eof': c['ceof'], 'connects': c['nconnect']})
    kinds = {}
    for c in cases:
        o = 'closed-with-response' if c['cgot'] and c['ceof'] else 'response-open' if c['cgot'] else 'closed-silently' if c['ceof'] else 'waiting'
        k = descs[c['id']]['kind'] + ' -> ' + o
        kinds[k] = kinds.get(k, 0) + 1
    chk.cov['input_outcomes'] = kinds
    chk.cov['inputs_never_returning'] = hung
    for c in cases[:2]:
        chk.sample({'case': descs[c['id']], 'input': bytes(c['input']).decode('latin1')[:200], 'client_got': bytes(c['cgot']).decode('latin1')[:200]})


def run_builders(chk, quick):
    from proxy.http import responses as R
    from proxy.http.exception import HttpRequestRejected, ProxyAuthenticationFailed, ProxyConnectionFailed
    from proxy.http.parser import HttpParser
    rnd = random.Random(chk.seed * 37 + 1)
    cases, descs = [], {}

    def add(name, out, content=None, exc=''):
        out = bytes(out) if out is not None else b''
        encbody, gz, _ch = extract(out) if out else (b'', False, False)
        gzbad, plain = False, encbody
        if gz:
            try:
                plain = gzip.decompress(encbody)
            except Exception:
                gzbad, plain = True, b''
        cid = len(cases) + 1
        cases.append({'id': cid, 'pid': 'C06', 'op': 'response', 'out': list(out), 'exc': exc, 'encbody': list(encbody), 'gzbad': gzbad,
                      'haveplain': content is not None, 'plain': list(plain), 'content': list(content or b'')})
        descs[cid] = name

    def call(name, fn, content=None):
        try:
            add(name, fn(), content)
        except Exception as e:     # noqa
            add(name, None, content, exc=type(e).__name__)
    for name in ('PROXY_TUNNEL_ESTABLISHED_RESPONSE_PKT', 'PROXY_TUNNEL_UNSUPPORTED_SCHEME', 'PROXY_AUTH_FAILED_RESPONSE_PKT',
                 'BAD_REQUEST_RESPONSE_PKT', 'NOT_FOUND_RESPONSE_PKT', 'NOT_IMPLEMENTED_RESPONSE_PKT', 'BAD_GATEWAY_RESPONSE_PKT'):
        add(name, getattr(R, name))
    thr = 20
    sizes = [0, 1, thr - 1, thr, thr + 1, 2 * thr, 1000, 70000]
    for n, compress, hs, cc in itertools.product(sizes, (True, False), (None, {}, {b'Content-Type': b'text/plain'}, {b'X-A': b'b', b'Server': b's'}),
                                                 (False, True)):
        content = bytes(rnd.getrandbits(8) for _ in range(min(n, 2000))) * (n // 2000 + 1)
        content = content[:n] if n else (None if rnd.random() < .5 else b'')
        call('okResponse n=%d compress=%s headers=%s conn_close=%s' % (n, compress, None if hs is None else sorted(hs), cc),
             lambda: R.okResponse(content=content, headers=None if hs is None else dict(hs), compress=compress, min_compression_length=thr,
                                  conn_close=cc), content or b'')
    # a header dictionary that is reused for several responses (module-level constants of plugins)
    for seq in ([1000, 5], [5, 1000, 7], [30, 10, 30], [0, 50, 0]):
        for compress in (True, False):
            shared = {b'Content-Type': b'text/plain', b'Cache-Control': b'max-age=1'}
            for k, n in enumerate(seq):
                content = bytes((65 + (i + k) % 26) for i in range(n))
                call('okResponse reused headers dict, call %d of sizes %s compress=%s' % (k + 1, seq, compress),
                     lambda: R.okResponse(content=content, headers=shared, compress=compress, min_compression_length=thr), content)
    for loc in (b'/', b'http://h.example/x?y=z', b'https://h/\xc3\xa9'):
        call('permanentRedirectResponse', lambda: R.permanentRedirectResponse(loc))
        call('seeOthersResponse', lambda: R.seeOthersResponse(loc))
    req = HttpParser.request(b'GET http://h/ HTTP/1.1\r\nHost: h\r\n\r\n')
    shared = {b'X-Why': b'no'}
    for code, reason, hs, body in itertools.product([None, 403, 418, 500], [None, b'Forbidden', b'a b c'],
                                                    [None, {b'X-A': b'b'}, shared], [None, b'', b'denied', b'x' * 300]):
        def rej():
            r = HttpRequestRejected(status_code=code, reason=reason, headers=hs, body=body).response(req)
            return r if r is not None else b''
        if code is None:
            continue
        call('HttpRequestRejected(%s, %r, headers=%s, body=%s)' % (code, reason, 'shared' if hs is shared else hs, None if body is None else len(body)),
             rej, body or b'')
    call('ProxyAuthenticationFailed.response', lambda: ProxyAuthenticationFailed().response(req))
    call('ProxyConnectionFailed.response', lambda: ProxyConnectionFailed('h', 80, 'refused').response(req))
    results, rej = tlc.run_sharded('TraceCodec', 'TraceCodec.cfg', cases, shards=16, timeout=1200, heap='6g')
    m = tlc.Merged(results)
    chk.add_tlc('TraceCodec op=response (%d proxy-made responses)' % len(cases), m)
    if m.status == 'failed':
        raise MachineryError('TraceCodec: ' + m.brief())
    chk.traces(len(cases))
    byid = {c['id']: c for c in cases}
    for cid, clause in rej:
        if clause.startswith('machinery'):
            raise MachineryError('builder case %d (%s): %s' % (cid, descs[cid], clause))
        chk.violation({'clause': clause, 'builder': descs[cid].split(' ')[0].split('(')[0]}, '%s: %s' % (descs[cid], clause),
                      {'builder_call': descs[cid], 'response': bytes(byid[cid]['out']).decode('latin1')[:400]})
    chk.cov['builder_cases'] = len(cases)
    chk.sample({'builder_call': descs[len(cases) // 3], 'response': bytes(cases[len(cases) // 3 - 1]['out']).decode('latin1')[:160]})


def run(chk):
    quick = chk.tier == 'quick'
    run_builders(chk, quick)
    run_inputs(chk, quick)
    chk.assume('an independent HTTP parser = the TLA+ reference parser of spec/Http.tla, evaluated by TLC',
               'gzip inflation by CPython zlib (trusted); the harness extraction of bodies is cross-checked by the reference parser',
               'inputs are sampled from a token-level mutation grammar, not exhaustive')


if __name__ == '__main__':
    main(run, 'C06')
