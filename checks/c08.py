"""C08 - with proxy authentication on, unauthenticated requests reach nothing.

(S) spec/TraceAuth.tla: Authorized(headers, credentials) defined from the raw configured credentials (base64 in TLA+)
    and the reference parse of the client's bytes; outcome clauses for "no" and "yes"; conflicting duplicates and tab
    separators are left unconstrained.
(R) every credential situation x header-name casing x method (incl. CONNECT) x segmentation x with/without a recording
    user plugin, through the REAL handler with flags built by FlagParser.initialize(basic_auth=..., plugins=[...]) so that
    the plugin load order is the real one.
(V) TLC decides each recorded conversation.
"""
import base64
import random

from harness import tlc, scen, testplugins, simdrive
from harness.common import main, MachineryError

RESP = b'HTTP/1.1 200 OK\r\nContent-Length: 2\r\n\r\nok'
REQUEST_HOOKS = ('resolve_dns', 'before_upstream_connection', 'handle_client_request', 'handle_client_data')


def situations(cred):
    T = base64.b64encode(cred)
    other = base64.b64encode(cred[:-1] + b'X')
    return [
        ('absent', []),
        ('exact', [b'Basic ' + T]),
        ('scheme lower', [b'basic ' + T]), ('scheme upper', [b'BASIC ' + T]), ('scheme mixed', [b'bAsIc ' + T]),
        ('two spaces', [b'Basic  ' + T]), ('trailing space', [b'Basic ' + T + b' ']),
        ('other scheme bearer', [b'Bearer ' + T]), ('other scheme digest', [b'Digest ' + T]),
        ('scheme prefix', [b'Basi ' + T]), ('scheme extended', [b'Basicc ' + T]), ('scheme glued', [b'Basic' + T]),
        ('token truncated', [b'Basic ' + T[:-1]]), ('token truncated 4', [b'Basic ' + T[:-4]]),
        ('token extended', [b'Basic ' + T + b'A']), ('token padded', [b'Basic ' + T + b'=']),
        ('token case-flipped', [b'Basic ' + T.swapcase()]), ('token lower', [b'Basic ' + T.lower()]),
        ('token urlsafe / unpadded', [b'Basic ' + base64.urlsafe_b64encode(cred).rstrip(b'=')]),
        ('token of other password', [b'Basic ' + other]), ('token of user only', [b'Basic ' + base64.b64encode(cred.split(b':')[0])]),
        ('raw credentials', [b'Basic ' + cred]),
        ('extra parameter', [b'Basic ' + T + b' realm=x']), ('scheme only', [b'Basic']), ('empty value', [b'']),
        ('token first', [T + b' Basic']),
        ('duplicate both valid', [b'Basic ' + T, b'basic ' + T]),
        ('duplicate both invalid', [b'Basic ' + other, b'Bearer ' + T]),
        ('duplicate mixed valid first', [b'Basic ' + T, b'Basic ' + other]),
        ('duplicate mixed valid last', [b'Basic ' + other, b'Basic ' + T]),
        ('tab separator', [b'Basic\t' + T]),
    ]


def run(chk):
    quick = chk.tier == 'quick'
    rnd = random.Random(chk.seed * 19 + 4)
    creds = [b'user:pa:ss', b'u:p'] if quick else [b'user:pa:ss', b'u:p', b'Aladdin:open sesame', b'\xc3\xa9:\xff\x00x', b'a:']
    names = [b'Proxy-Authorization', b'proxy-authorization', b'PROXY-AUTHORIZATION', b'pRoXy-aUtHoRiZaTiOn']
    methods = [('GET', b'GET http://h.example/x HTTP/1.1\r\nHost: h.example\r\n', b''),
               ('POST', b'POST http://h.example:8080/up HTTP/1.1\r\nHost: h.example\r\nContent-Length: 5\r\n', b'hello'),
               ('CONNECT', b'CONNECT h.example:443 HTTP/1.1\r\nHost: h.example:443\r\n', b''),
               ('HEAD', b'HEAD http://10.1.2.3/ HTTP/1.0\r\n', b'')]
    styles = ['one', 'crlf', 'few', 'bytes']
    cases, descs = [], {}
    k = 0
    for cred in creds:
        for sname, values in situations(cred):
            for mi, (mname, head, body) in enumerate(methods):
                if quick and (k + mi) % 2 and sname not in ('exact', 'absent'):
                    k += 1
                    continue
                k += 1
                userplugin = k % 2 == 0
                log = []
                plugins = [testplugins.recording_plugin(log)] if userplugin else []
                # flags through the real FlagParser: basic_auth option + plugins option
                # every third conversation with 24-byte sends: the 407 leaves in several writes (seed C08d: the must-flush flag dropped
                # after the first, partial, flush keeps the unauthenticated connection open and later data reaches the later plugins)
                small = k % 3 == 0
                conv = scen.Conversation(args=(['--basic-auth', cred.decode('utf-8', 'surrogateescape')] if cred.isascii() else []) +
                                         (['--max-sendbuf-size', '24'] if small else []),
                                         flag_opts=({'plugins': plugins} if cred.isascii() else
                                                    {'plugins': plugins, 'basic_auth': cred}), threaded=(k % 4 == 1))
                name = names[k % 4]
                lines = b''.join(name + rnd.choice([b': ', b':', b':  ']) + v + b'\r\n' for v in values)
                # the credential line goes before or after the other headers
                first, rest = head.split(b'\r\n', 1)
                raw = first + b'\r\n' + (lines + rest if k % 3 else rest + lines) + b'\r\n' + body
                c = conv.client()
                style = styles[k % 4]
                for piece in scen.pieces(raw, rnd, style):
                    conv.step(('c', piece))
                if mname != 'CONNECT':
                    conv.step(('u', 1, RESP))
                    # a later request on the same connection, with the same credential line
                    conv.step(('c', raw))
                    conv.step(('u', 1, RESP))
                else:
                    conv.step(('c', b'\x16\x03\x01tunnel-bytes'))
                t = conv.transcript()
                ugot = b''.join(u['got'] for u in t['upstreams'])
                cid = len(cases) + 1
                cases.append({'id': cid, 'cred': list(cred), 'req': list(raw), 'cgot': list(t['clients'][0]['got']),
                              'ceof': t['clients'][0]['eof'], 'nconnect': len(t['connects']), 'ugot': list(ugot),
                              'hooks': len([h for h in log if h[1] in REQUEST_HOOKS]), 'userplugin': userplugin})
                descs[cid] = {'mode': 'threaded' if k % 4 == 1 else 'threadless', 'situation': sname, 'method': mname, 'header_name': name.decode(), 'segments': style, 'user_plugin': userplugin, 'sends': '24-byte' if small else 'whole',
                              'credentials': cred.decode('latin1'), 'loop_alive': t['alive']}
    results, rej = tlc.run_sharded('TraceAuth', 'TraceAuth.cfg', cases, shards=16, timeout=1200)
    m = tlc.Merged(results)
    chk.add_tlc('TraceAuth (%d conversations)' % len(cases), m)
    if m.status == 'failed':
        raise MachineryError('TraceAuth: ' + m.brief())
    chk.traces(len(cases))
    byid = {c['id']: c for c in cases}
    for cid, clause in rej:
        if clause.startswith('machinery'):
            raise MachineryError('case %d: %s (%s)' % (cid, clause, descs[cid]))
        d = descs[cid]
        c = byid[cid]
        chk.violation({'clause': clause.split(':')[0], 'situation': d['situation']}, '%s / %s: %s' % (d['situation'], d['method'], clause),
                      {'case': d, 'request': bytes(c['req']).decode('latin1'), 'client_got': bytes(c['cgot']).decode('latin1')[:300],
                       'connects': c['nconnect'], 'origin_got': bytes(c['ugot']).decode('latin1')[:300], 'later_plugin_hooks': c['hooks']})
    sit = {}
    for d in descs.values():
        sit[d['situation']] = sit.get(d['situation'], 0) + 1
    chk.cov['situations'] = sit
    for c in cases[:2] + cases[len(cases) // 2:len(cases) // 2 + 1]:
        chk.sample({'case': descs[c['id']], 'request': bytes(c['req']).decode('latin1'), 'client_got': bytes(c['cgot']).decode('latin1')[:120],
                    'connects': c['nconnect']})
    chk.cov['conversations_with_24_byte_sends'] = len([d for d in descs.values() if d['sends'] == '24-byte'])
    chk.assume('conflicting duplicate Proxy-Authorization lines (one valid, one not) and tab separators are left unconstrained',
               'flags are built by the real FlagParser so the plugin load order (auth plugin first) is the real one')


if __name__ == '__main__':
    main(run, 'C08')
