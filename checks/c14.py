"""C14 - the proxy connects to exactly the host and port the request-target names.

(S) spec/Target.tla: reference request-target parser (origin / absolute / authority form; reg-names, IPv4, bracketed
    IPv6; explicit or default ports; userinfo), independent of proxy/http/url.py; spec/TraceTarget.tla: the clauses.
(R) targets are generated from components (form x userinfo x host spelling x port x path/query) plus damaged variants;
    each goes (a) through the REAL HttpParser and (b) through the REAL handler + HttpProxyPlugin on SimNet, where the
    outbound connection attempt is observed at the socket-module seam (host string, port, literal-or-name dispatch).
    Sequences (spec/TraceTargetSeq.tla): 2..4 absolute-form requests on one kept-alive client connection (origins sharing
    the host / the port / both in another spelling), each answered by a faithful origin before the next is sent: every
    request must arrive over exactly one upstream connection, the one to the host and port ITS target names.
(V) TLC parses the target with the reference and decides.
"""
import itertools
import random

from harness import tlc, scen
from harness.common import main, MachineryError

REG = [b'h.example', b'a.b.c.example.org', b'xn--bcher-kva.example', b'b\xc3\xbccher.example', b'localhost', b'h-1.example', b'EXAMPLE.com']
V4 = [b'127.0.0.1', b'10.1.2.3', b'255.255.255.255', b'0.0.0.0']
V6 = [b'::1', b'2001:db8::7', b'2001:0db8:0000:0000:0000:0000:0000:0007', b'::ffff:192.0.2.1', b'fe80::1', b'::']
PORTS = [None, 0, 1, 80, 443, 8080, 65535]
PATHS = [b'', b'/', b'/x', b'/a/b?c=d&e=%20', b'/p;q=1/r?s=/t/../u', b'/?x=http://y/z', b'/@:!$&()*+,;=']
USERS = [None, b'u:p', b'user', b'u:p:q']
DAMAGED = [b'http://h.example:port/', b'http://h.example:99999/', b'http://h.example:-1/', b'http://[::1/', b'http:///x',
           b'http://:80/', b'http://h ex/', b'http://[]/', b'http://[::1]x/', b'http://[::1]:/x:y:z:',
           b'http://h.example:8 0/', b'http://u@/']
DAMAGED_CONNECT = [b'h.example', b':443', b'h.example:', b'h.example:port', b'h.example:70000', b'[::1', b'[::1]443', b'[::1]:',
                   b'h.example:4 43', b'[]:443', b'u@:443']


def targets(rnd, quick):
    out = []
    hosts = [('reg', h) for h in REG] + [('v4', h) for h in V4] + [('v6', b'[' + h + b']') for h in V6]
    for (cls, h), port, path, user in itertools.product(hosts, PORTS, PATHS, USERS):
        if quick and rnd.random() > 0.09:
            continue
        t = b'http://' + (user + b'@' if user else b'') + h + (b':%d' % port if port is not None else b'') + path
        out.append((t, False, {'form': 'absolute', 'host_class': cls, 'port': port, 'userinfo': bool(user), 'path': path.decode()}))
    for (cls, h), port, user in itertools.product(hosts, PORTS, [None, b'u:p']):
        if quick and rnd.random() > 0.35:
            continue
        if port is None and user is None and rnd.random() < .5:
            continue
        t = (user + b'@' if user else b'') + h + (b':%d' % port if port is not None else b'')
        out.append((t, True, {'form': 'authority', 'host_class': cls, 'port': port, 'userinfo': bool(user)}))
    for p in (b'00080', b'0443', b'00'):
        out.append((b'http://h.example:' + p + b'/', False, {'form': 'absolute', 'host_class': 'reg', 'port': p.decode(), 'note': 'leading zeros'}))
        out.append((b'h.example:' + p, True, {'form': 'authority', 'host_class': 'reg', 'port': p.decode(), 'note': 'leading zeros'}))
    for t in DAMAGED:
        out.append((t, False, {'form': 'damaged absolute'}))
    for t in DAMAGED_CONNECT:
        out.append((t, True, {'form': 'damaged authority'}))
    return out


SEQ_RESP = b'HTTP/1.1 200 OK\r\nContent-Length: 4\r\n\r\nbody'


def seq_part(chk, rnd, quick):
    """Sequences: 2..4 absolute-form requests on ONE kept-alive client connection, each answered before the next is sent; every request
    must arrive at the origin its own target names (spec/TraceTargetSeq.tla).  Origins that share the host and differ in the port, share
    the port and differ in the host, are the same origin in two spellings, IPv6 literals."""
    A = [(b'h.example', b''), (b'h.example', b':8080'), (b'h.example', b':81'), (b'g.example', b''), (b'g.example', b':8080'), (b'h.example.org', b':8080'),
         (b'10.1.2.3', b':8000'), (b'10.1.2.3', b':8001'), (b'10.1.2.4', b':8000'), (b'[::1]', b':9000'), (b'[::1]', b':9001'), (b'[2001:db8::7]', b':9000'),
         (b'h.example', b':80'), (b'H.EXAMPLE', b'')]
    shapes = [(0, 1, 0), (0, 1), (1, 0, 1, 0), (0, 0, 1), (0, 1, 1, 0), (0, 1, 2), (0, 1, 0, 2)]
    pairs = [(a, b) for a in range(len(A)) for b in range(len(A)) if a != b]
    if quick:
        pairs = [pq for pq in pairs if rnd.random() < 0.4]
    cases, descs = [], {}
    for a, b in pairs:
        third = rnd.choice([x for x in range(len(A)) if x not in (a, b)])
        for shape in ([shapes[0]] + rnd.sample(shapes[1:], 1 if quick else 3)):
            origin = [A[(a, b, third)[i]] for i in shape]
            targets = [b'http://' + h + p + rnd.choice([b'/', b'/r%d' % k, b'/x/y?z=%d' % k]) for k, (h, p) in enumerate(origin)]
            conv = scen.Conversation(args=[])
            c = conv.client()
            dests = []
            for t in targets:
                method = rnd.choice([b'GET', b'GET', b'POST', b'DELETE'])
                body = b'seq-body' if method == b'POST' else b''
                raw = method + b' ' + t + b' HTTP/1.1\r\nHost: ' + rnd.choice([b'ignored.example', t.split(b'/')[2]]) + b'\r\n' + \
                    (b'Content-Length: %d\r\n' % len(body) if body else b'') + b'\r\n' + body
                seen = {id(u): len(u.got) for u in conv.sim.upstreams}
                for piece in scen.pieces(raw, rnd, rnd.choice(['one', 'two', 'crlf'])):
                    conv.step(('c', piece))
                grew = [u for u in conv.sim.upstreams if len(u.got) > seen.get(id(u), 0)]
                dests.append([{'host': list(str(u.addr[0]).encode()), 'port': u.addr[1] if isinstance(u.addr[1], int) else -1} for u in grew])
                g0 = len(c.got)
                for u in grew[:1]:
                    if not u.closed:
                        u.write(SEQ_RESP)
                        conv.settle()
                if c.eof_seen or len(c.got) == g0:
                    break                       # the conversation cannot go on in lock step (judged up to here)
            cid = len(cases) + 1
            cases.append({'id': cid, 'targets': [list(t) for t in targets[:len(dests)]], 'dests': dests})
            descs[cid] = {'targets': [t.decode() for t in targets], 'requests_sent': len(dests), 'loop_alive': conv.sim.alive}
    results, rej = tlc.run_sharded('TraceTargetSeq', 'TraceTargetSeq.cfg', cases, shards=16, timeout=1200)
    m = tlc.Merged(results)
    chk.add_tlc('TraceTargetSeq (%d kept-alive connections)' % len(cases), m)
    if m.status == 'failed':
        raise MachineryError('TraceTargetSeq: ' + m.brief())
    chk.traces(len(cases))
    byid = {c['id']: c for c in cases}
    for cid, clause in rej:
        if clause.startswith('machinery'):
            raise MachineryError('sequence case %d: %s' % (cid, clause))
        d, c = descs[cid], byid[cid]
        k = int(clause.split('(request ')[1].split(' ')[0])
        sig = {'clause': clause.split(' (')[0], 'form': 'absolute-sequence', 'request_index': min(k, 3)}
        chk.violation(sig, 'kept-alive connection %s: %s' % (d['targets'], clause),
                      {'case': d, 'destinations': [[(bytes(x['host']).decode('latin1'), x['port']) for x in ds] for ds in c['dests']]})
    chk.cov['sequence_connections'] = len(cases)
    chk.cov['sequence_requests'] = sum(len(c['dests']) for c in cases)
    short = sum(1 for c in cases if len(c['dests']) < len(descs[c['id']]['targets']))
    chk.cov['sequences_cut_short'] = short
    for c in cases[:1]:
        chk.sample({'case': descs[c['id']], 'destinations': [[(bytes(x['host']).decode('latin1'), x['port']) for x in ds] for ds in c['dests']]})


def run(chk):
    quick = chk.tier == 'quick'
    rnd = random.Random(chk.seed * 43 + 5)
    from proxy.http.parser import HttpParser, httpParserTypes
    cases, descs = [], {}
    for t, connect, d in targets(rnd, quick):
        method = b'CONNECT' if connect else rnd.choice([b'GET', b'POST', b'HEAD', b'DELETE'])
        raw = method + b' ' + t + b' HTTP/1.1\r\nHost: ignored.example\r\n' + (b'Content-Length: 0\r\n' if method == b'POST' else b'') + b'\r\n'
        pexc, phost, pport, ppath = '', b'', -1, b''
        try:
            p = HttpParser(httpParserTypes.REQUEST_PARSER)
            p.parse(memoryview(raw))
            phost, pport, ppath = p.host or b'', p.port if isinstance(p.port, int) else -1, p.path or b''
        except Exception as e:     # noqa
            pexc = type(e).__name__
        conv = scen.Conversation(args=[])
        c = conv.client()
        for piece in scen.pieces(raw, rnd, rnd.choice(['one', 'two', 'crlf'])):
            conv.step(('c', piece))
        tr = conv.transcript()
        cid = len(cases) + 1
        cases.append({'id': cid, 'target': list(t), 'connect': connect, 'pexc': pexc, 'phost': list(phost), 'pport': pport, 'ppath': list(ppath),
                      'conns': [{'host': list(x['host'].encode('utf-8', 'surrogateescape') if isinstance(x['host'], str) else x['host']),
                                 'port': x['port'] if isinstance(x['port'], int) else -1, 'via': x.get('via', '')} for x in tr['connects']],
                      'cgot': list(tr['clients'][0]['got'][:400]), 'ceof': tr['clients'][0]['eof']})
        d['method'] = method.decode()
        d['target'] = t.decode('latin1')
        d['loop_alive'] = tr['alive']
        descs[cid] = d
    results, rej = tlc.run_sharded('TraceTarget', 'TraceTarget.cfg', cases, shards=16, timeout=1200)
    m = tlc.Merged(results)
    chk.add_tlc('TraceTarget (%d request-targets)' % len(cases), m)
    if m.status == 'failed':
        raise MachineryError('TraceTarget: ' + m.brief())
    chk.traces(len(cases))
    byid = {c['id']: c for c in cases}
    for cid, clause in rej:
        d, c = descs[cid], byid[cid]
        sig = {'clause': clause.split(' (')[0], 'form': d['form'], 'host_class': d.get('host_class', ''), 'userinfo': d.get('userinfo', False)}
        chk.violation(sig, '%s %s: %s' % (d['method'], d['target'], clause),
                      {'case': d, 'parser': {'exc': c['pexc'], 'host': bytes(c['phost']).decode('latin1'), 'port': c['pport'], 'path': bytes(c['ppath']).decode('latin1')},
                       'connections': [{'host': bytes(x['host']).decode('latin1'), 'port': x['port'], 'via': x['via']} for x in c['conns']],
                       'client_got': bytes(c['cgot']).decode('latin1')[:120]})
    seq_part(chk, rnd, quick)
    forms = {}
    for d in descs.values():
        k = '%s/%s' % (d['form'], d.get('host_class', '-'))
        forms[k] = forms.get(k, 0) + 1
    chk.cov['target_classes'] = forms
    for c in cases[:2]:
        chk.sample({'case': descs[c['id']], 'connections': [{'host': bytes(x['host']).decode('latin1'), 'port': x['port']} for x in c['conns']]})
    chk.assume('unbracketed multi-colon hosts (h:80:81, :::443) are patched up as IPv6 by the implementation (pinned by the repository tests) and left unconstrained; so is an absolute URL as CONNECT target',
               'IDNA / UTF-8 reg-names are passed through as bytes; name resolution itself is outside (the socket seam records what it is given)',
               'at the parser level an IPv6 host may be reported with or without its brackets; at the socket seam it must be without')


if __name__ == '__main__':
    main(run, 'C14')
