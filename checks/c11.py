"""C11 - TLS interception issues a valid per-host certificate and never trusts a bad upstream.

(S) spec/Tls.tla: the interception protocol over facts (certificate situation x insecure switch x opt-out x cache x host
    kind); TLC: NeverTrustBad, LeafNamesHost, EndsRight (liveness) over the whole case table.
(R) RealNet only: a REAL proxy process with the interception flags (test CA generated with the system openssl), real TLS
    origins presenting a trusted / self-signed / wrong-name / expired certificate, a client that CONNECTs (host name and
    IPv4 literal), completes TLS without verifying, has the presented certificate judged by the openssl CLI (chains to the
    interception CA? names the CONNECT host? is it the origin's own?), then sends a request inside TLS.  Each case twice
    (cold and warm certificate cache).  Facts -> spec/TraceTls.tla.
"""
import os
import socket
import ssl
import subprocess
import tempfile
import time

from harness import tlc, realnet, tlsfix
from harness.common import main, MachineryError

CERTS = ['trusted', 'selfsigned', 'wrongname', 'expired']
RESP = b'HTTP/1.1 200 OK\r\nContent-Length: 17\r\nX-Origin: tls\r\n\r\norigin-says-hello'


BIG = bytes((i * 7 + i // 251) % 256 for i in range(40000))      # several TLS records
RESPONSES = {
    'small': RESP,
    'chunked': b'HTTP/1.1 200 OK\r\nTransfer-Encoding: chunked\r\nX-Origin: tls\r\n\r\n5;x=y\r\nhello\r\nb\r\n tls world!\r\n0\r\nX-T: 1\r\n\r\n',
    'big': b'HTTP/1.1 200 OK\r\nContent-Length: %d\r\nX-Origin: tls\r\n\r\n' % len(BIG) + BIG,
}
BODY = bytes(range(256)) + b'\r\n0\r\n\r\n-body-with-framing-lookalikes'
VARIANTS = [('get', 'one', 'small'), ('post-cl', 'split', 'chunked'), ('post-chunked', 'one', 'big'), ('post-chunked-empty', 'split', 'small'),
            ('post-cl', 'one', 'big'), ('get', 'split', 'chunked'), ('post-chunked', 'split', 'small')]


def request_complete(got):
    import re
    head, sep, rest = got.partition(b'\r\n\r\n')
    if not sep:
        return False
    if re.search(rb'(?im)^transfer-encoding:\s*chunked', head):
        return rest.endswith(b'0\r\n\r\n')
    m = re.search(rb'(?im)^content-length:\s*(\d+)', head)
    return len(rest) >= (int(m.group(1)) if m else 0)


def tls_origin(d, name, host='127.0.0.1'):
    import re
    ctx = ssl.SSLContext(ssl.PROTOCOL_TLS_SERVER)
    ctx.load_cert_chain(os.path.join(d, name + '-cert.pem'), os.path.join(d, name + '-key.pem'))
    answered = set()

    def beh(idx, got):
        if idx in answered or not request_complete(got):
            return None
        answered.add(idx)
        m = re.search(rb'(?im)^x-resp:\s*(\w+)', got)
        return RESPONSES.get(m.group(1).decode() if m else 'small', RESP)
    return realnet.Origin(name.encode(), behaviour=beh, wrap=lambda c: ctx.wrap_socket(c, server_side=True), host=host)


def build_request(kind, host, tag, resp_kind):
    line = (b'GET' if kind == 'get' else b'POST') + b' /secret-%s HTTP/1.1\r\nHost: %s\r\nX-Token: %s\r\nX-Resp: %s\r\n' % (tag, host.encode(), tag, resp_kind.encode())
    if kind == 'get':
        return line + b'\r\n'
    if kind == 'post-cl':
        return line + b'Content-Length: %d\r\n\r\n' % len(BODY) + BODY
    if kind == 'post-chunked-empty':
        return line + b'Transfer-Encoding: chunked\r\n\r\n0\r\n\r\n'
    a, b = BODY[:200], BODY[200:]
    return line + b'Transfer-Encoding: chunked\r\n\r\n%x\r\n' % len(a) + a + b'\r\n%x;ext=1\r\n' % len(b) + b + b'\r\n0\r\n\r\n'


def openssl_facts(d, der, host, hostkind, origin_cert_der):
    with tempfile.NamedTemporaryFile(suffix='.pem', delete=False) as f:
        f.write(ssl.DER_cert_to_PEM_cert(der).encode())
        path = f.name
    try:
        v = subprocess.run(['openssl', 'verify', '-CAfile', os.path.join(d, 'ca-cert.pem'), path], stdout=subprocess.PIPE, stderr=subprocess.STDOUT)
        chains = v.returncode == 0
        flag = '-checkip' if hostkind in ('ipv4', 'ipv6') else '-checkhost'
        n = subprocess.run(['openssl', 'x509', '-in', path, '-noout', flag, host], stdout=subprocess.PIPE, stderr=subprocess.STDOUT)
        names = b'does match' in n.stdout
    finally:
        os.unlink(path)
    return chains, names, der == origin_cert_der


def conversation(pport, host, oport, tag, variant=('get', 'one', 'small')):
    kind, seg, resp_kind = variant
    req = build_request(kind, host, tag, resp_kind)
    out = {'tlsok': False, 'der': b'', 'cgot': b'', 'req': req, 'connect_status': b''}
    s = socket.create_connection(('127.0.0.1', pport), timeout=8)
    try:
        auth = (b'[' + host.encode() + b']' if ':' in host else host.encode()) + b':%d' % oport
        s.sendall(b'CONNECT %s HTTP/1.1\r\nHost: %s\r\n\r\n' % (auth, auth))
        head = b''
        s.settimeout(8)
        while b'\r\n\r\n' not in head:
            d = s.recv(4096)
            if not d:
                break
            head += d
        out['connect_status'] = head.split(b'\r\n')[0]
        if b' 200 ' not in head.split(b'\r\n')[0] + b' ':
            return out
        ctx = ssl.SSLContext(ssl.PROTOCOL_TLS_CLIENT)
        ctx.check_hostname = False
        ctx.verify_mode = ssl.CERT_NONE
        try:
            t = ctx.wrap_socket(s, server_hostname=host if not (host[0].isdigit() or ':' in host) else None)
        except (ssl.SSLError, OSError):
            return out
        out['tlsok'] = True
        out['der'] = t.getpeercert(True) or b''
        try:
            if seg == 'one':
                t.sendall(req)
            else:       # several TLS records, the cuts inside the request line, inside the header terminator and inside the body
                cuts = sorted({9, req.index(b'\r\n\r\n') + 2, min(len(req), req.index(b'\r\n\r\n') + 4 + 150)})
                prev = 0
                for c_ in cuts + [len(req)]:
                    if c_ > prev:
                        t.sendall(req[prev:c_])
                        time.sleep(0.05)
                        prev = c_
            got, _eof = realnet.read_quiet(t, quiet=0.5, first=4.0)
            out['cgot'] = got
        except (ssl.SSLError, OSError):
            pass
        try:
            t.close()
        except Exception:
            pass
    except OSError:
        pass
    finally:
        try:
            s.close()
        except Exception:
            pass
    return out


def run(chk):
    quick = chk.tier == 'quick'
    r = tlc.run('Tls', 'Tls.cfg', workers=4, timeout=300)
    chk.add_tlc('Tls (case table x protocol steps, exhaustive)', r, exhaustive=True)
    chk.require_ok('Tls', r)
    d = tlsfix.ensure()
    origins = {}
    for c in CERTS:
        for fam, bind in (('v4', '127.0.0.1'), ('v6', '::1')):
            origins[(c, False, fam)] = tls_origin(d, c, bind)
            origins[(c, True, fam)] = tls_origin(d, c, bind)
    optports = ','.join(str(o.port) for k, o in origins.items() if k[1])
    cases, descs = [], {}
    procs = []
    try:
        for insecure in (False, True):
            tmp = tempfile.mkdtemp(prefix='c11-certs-')
            extra = ['--ca-key-file', os.path.join(d, 'ca-key.pem'), '--ca-cert-file', os.path.join(d, 'ca-cert.pem'),
                     '--ca-signing-key-file', os.path.join(d, 'ca-signing-key.pem'), '--ca-cert-dir', tmp,
                     '--ca-file', os.path.join(d, 'octa-cert.pem'), '--plugins', 'harness.realplugins.OptOutByPort', '--timeout', '5']
            if insecure:
                extra.append('--insecure-tls-interception')
            px = realnet.ProxyProc('local', extra=extra, env={'VERIF_OPTOUT_PORTS': optports})
            procs.append((px, tmp))
            # the first intercepted conversation per host meets a cold certificate cache (the leaf is generated); those run one
            # after the other, everything after them concurrently (8 clients at a time) against a warm cache
            jobs = []
            for hostkind, host in (('name', 'localhost'), ('ipv4', '127.0.0.1'), ('ipv6', '::1')):
                first = True
                for c in CERTS:
                    for optout in (False, True):
                        for rep in (0, 1):
                            if quick and rep == 1 and c in ('selfsigned', 'expired') and not insecure:
                                continue
                            intercepts = not optout and (insecure or c == 'trusted')
                            cold = intercepts and first
                            if intercepts:
                                first = False
                            jobs.append({'hostkind': hostkind, 'host': host, 'cert': c, 'optout': optout, 'cold': cold,
                                         'tag': b'K%04d' % (len(cases) + len(jobs) + 1), 'variant': VARIANTS[(len(cases) + len(jobs)) % len(VARIANTS)]})

            def one(j):
                o = origins[(j['cert'], j['optout'], 'v6' if j['hostkind'] == 'ipv6' else 'v4')]
                j['res'] = conversation(px.port, j['host'], o.port, j['tag'], j['variant'])
            for j in [j for j in jobs if j['cold']]:
                one(j)
            import concurrent.futures
            with concurrent.futures.ThreadPoolExecutor(8) as ex:
                list(ex.map(one, [j for j in jobs if not j['cold']]))
            time.sleep(0.3)
            for j in jobs:
                c, optout, hostkind, host, variant, res = j['cert'], j['optout'], j['hostkind'], j['host'], j['variant'], j['res']
                o = origins[(c, optout, 'v6' if hostkind == 'ipv6' else 'v4')]
                # what the origin received on the connection(s) that carried this conversation's tag (plaintext inside its TLS session)
                ogot = b''.join(x['got'] for x in o.transcript() if b'X-Token: ' + j['tag'] + b'\r\n' in x['got'])
                origin_der = ssl.PEM_cert_to_DER_cert(open(os.path.join(d, c + '-cert.pem')).read())
                chains, names, isorigin = openssl_facts(d, res['der'], host, hostkind, origin_der) if res['der'] else (False, False, False)
                cid = len(cases) + 1
                cases.append({'id': cid, 'cert': c, 'insecure': insecure, 'optout': optout, 'hostkind': hostkind, 'tlsok': res['tlsok'],
                              'leafchains': chains, 'leafnames': names, 'isorigincert': isorigin, 'req': list(res['req']), 'resp': list(RESPONSES[variant[2]]),
                              'ogot': list(ogot), 'cgot': list(res['cgot'])})
                descs[cid] = {'origin_certificate': c, 'insecure': insecure, 'opt_out': optout, 'host': host, 'cache': 'cold' if j['cold'] else 'warm',
                              'request': variant[0], 'tls_records': variant[1], 'response': variant[2],
                              'connect_status': res['connect_status'].decode('latin1')}
    finally:
        for px, tmp in procs:
            px.stop()
            import shutil
            shutil.rmtree(tmp, ignore_errors=True)
        for o in origins.values():
            o.stop()
    results, rej = tlc.run_sharded('TraceTls', 'TraceTls.cfg', cases, shards=8, timeout=600)
    m = tlc.Merged(results)
    chk.add_tlc('TraceTls (%d real TLS conversations)' % len(cases), m)
    if m.status == 'failed':
        raise MachineryError('TraceTls: ' + m.brief())
    chk.traces(len(cases))
    byid = {c['id']: c for c in cases}
    for cid, clause in rej:
        d_, c = descs[cid], byid[cid]
        sig = {'clause': clause.split(' (')[0], 'host_kind': c['hostkind'], 'certificate': c['cert'], 'insecure': c['insecure'], 'opt_out': c['optout']}
        chk.violation(sig, '%s: %s' % (d_, clause), {'case': d_, 'facts': {k: c[k] for k in ('tlsok', 'leafchains', 'leafnames', 'isorigincert')},
                                                     'origin_got': bytes(c['ogot']).decode('latin1')[:200], 'client_got': bytes(c['cgot']).decode('latin1')[:200]})
    chk.cov['conversations'] = len(cases)
    chk.sample({'case': descs[1], 'facts': {k: cases[0][k] for k in ('tlsok', 'leafchains', 'leafnames', 'isorigincert')}})
    chk.assume('X.509 chain building, name matching and expiry are judged by OpenSSL (CPython ssl in the proxy and the origins, the openssl CLI for '
               'the presented leaf); the specification decides the protocol rule over those facts',
               'a Via field added inside the intercepted session is left unconstrained (the repository tests pin that none is added)',
               'hosts: the name localhost, the IPv4 literal 127.0.0.1 and the IPv6 literal [::1]; payloads: GET, POST with Content-Length (binary body), chunked '
               'and empty chunked requests, in one or several TLS records; small, chunked (extension, trailer) and 40 kB responses')


if __name__ == '__main__':
    main(run, 'C11')
