"""C11 - TLS interception issues a valid per-host certificate and never trusts a bad upstream.

(S) spec/Tls.tla: the interception protocol over facts (certificate situation x insecure switch x opt-out x cache x host
    kind); TLC: NeverTrustBad, LeafNamesHost, EndsRight (liveness) over the whole case table.
(R) RealNet only: a REAL proxy process with the interception flags (test CA generated with the system openssl), real TLS
    origins presenting a trusted / self-signed / wrong-name / expired certificate, a client that CONNECTs (host name and
    IPv4 literal), completes TLS without verifying, has the presented certificate judged by the openssl CLI (chains to the
    interception CA? names the CONNECT host? is it the origin's own?), then sends a request inside TLS.  Each case twice
    (cold and warm certificate cache).  Facts -> spec/TraceTls.tla.
"""
import os
import socket
import ssl
import subprocess
import tempfile
import time

from harness import tlc, realnet, tlsfix
from harness.common import main, MachineryError

CERTS = ['trusted', 'selfsigned', 'wrongname', 'expired']
RESP = b'HTTP/1.1 200 OK\r\nContent-Length: 17\r\nX-Origin: tls\r\n\r\norigin-says-hello'


def tls_origin(d, name):
    ctx = ssl.SSLContext(ssl.PROTOCOL_TLS_SERVER)
    ctx.load_cert_chain(os.path.join(d, name + '-cert.pem'), os.path.join(d, name + '-key.pem'))

    def beh(idx, got):
        return RESP if b'\r\n\r\n' in got and got.count(b'\r\n\r\n') == 1 and got.endswith(b'\r\n\r\n') else None
    return realnet.Origin(name.encode(), behaviour=beh, wrap=lambda c: ctx.wrap_socket(c, server_side=True))


def openssl_facts(d, der, host, hostkind, origin_cert_der):
    with tempfile.NamedTemporaryFile(suffix='.pem', delete=False) as f:
        f.write(ssl.DER_cert_to_PEM_cert(der).encode())
        path = f.name
    try:
        v = subprocess.run(['openssl', 'verify', '-CAfile', os.path.join(d, 'ca-cert.pem'), path], stdout=subprocess.PIPE, stderr=subprocess.STDOUT)
        chains = v.returncode == 0
        flag = '-checkip' if hostkind == 'ipv4' else '-checkhost'
        n = subprocess.run(['openssl', 'x509', '-in', path, '-noout', flag, host], stdout=subprocess.PIPE, stderr=subprocess.STDOUT)
        names = b'does match' in n.stdout
    finally:
        os.unlink(path)
    return chains, names, der == origin_cert_der


def conversation(pport, host, oport, tag):
    req = b'GET /secret-%s HTTP/1.1\r\nHost: %s\r\nX-Token: %s\r\n\r\n' % (tag, host.encode(), tag)
    out = {'tlsok': False, 'der': b'', 'cgot': b'', 'req': req, 'connect_status': b''}
    s = socket.create_connection(('127.0.0.1', pport), timeout=8)
    try:
        s.sendall(b'CONNECT %s:%d HTTP/1.1\r\nHost: %s:%d\r\n\r\n' % (host.encode(), oport, host.encode(), oport))
        head = b''
        s.settimeout(8)
        while b'\r\n\r\n' not in head:
            d = s.recv(4096)
            if not d:
                break
            head += d
        out['connect_status'] = head.split(b'\r\n')[0]
        if b' 200 ' not in head.split(b'\r\n')[0] + b' ':
            return out
        ctx = ssl.SSLContext(ssl.PROTOCOL_TLS_CLIENT)
        ctx.check_hostname = False
        ctx.verify_mode = ssl.CERT_NONE
        try:
            t = ctx.wrap_socket(s, server_hostname=host if not host[0].isdigit() else None)
        except (ssl.SSLError, OSError):
            return out
        out['tlsok'] = True
        out['der'] = t.getpeercert(True) or b''
        try:
            t.sendall(req)
            got, _eof = realnet.read_quiet(t, quiet=0.5, first=4.0)
            out['cgot'] = got
        except (ssl.SSLError, OSError):
            pass
        try:
            t.close()
        except Exception:
            pass
    except OSError:
        pass
    finally:
        try:
            s.close()
        except Exception:
            pass
    return out


def run(chk):
    quick = chk.tier == 'quick'
    r = tlc.run('Tls', 'Tls.cfg', workers=4, timeout=300)
    chk.add_tlc('Tls (case table x protocol steps, exhaustive)', r, exhaustive=True)
    chk.require_ok('Tls', r)
    d = tlsfix.ensure()
    origins = {}
    for c in CERTS:
        origins[(c, False)] = tls_origin(d, c)
        origins[(c, True)] = tls_origin(d, c)
    optports = ','.join(str(origins[(c, True)].port) for c in CERTS)
    cases, descs = [], {}
    procs = []
    try:
        for insecure in (False, True):
            tmp = tempfile.mkdtemp(prefix='c11-certs-')
            extra = ['--ca-key-file', os.path.join(d, 'ca-key.pem'), '--ca-cert-file', os.path.join(d, 'ca-cert.pem'),
                     '--ca-signing-key-file', os.path.join(d, 'ca-signing-key.pem'), '--ca-cert-dir', tmp,
                     '--ca-file', os.path.join(d, 'octa-cert.pem'), '--plugins', 'harness.realplugins.OptOutByPort', '--timeout', '5']
            if insecure:
                extra.append('--insecure-tls-interception')
            px = realnet.ProxyProc('local', extra=extra, env={'VERIF_OPTOUT_PORTS': optports})
            procs.append((px, tmp))
            for hostkind, host in (('name', 'localhost'), ('ipv4', '127.0.0.1')):
                for c in CERTS:
                    for optout in (False, True):
                        for round_ in ('cold', 'warm'):
                            if quick and round_ == 'warm' and c in ('selfsigned', 'expired') and not insecure:
                                continue
                            o = origins[(c, optout)]
                            n0 = len(o.transcript())
                            tag = b'K%04d' % (len(cases) + 1)
                            res = conversation(px.port, host, o.port, tag)
                            time.sleep(0.05)
                            new = o.transcript()[n0:]
                            ogot = b''.join(x['got'] for x in new)
                            origin_der = ssl.PEM_cert_to_DER_cert(open(os.path.join(d, c + '-cert.pem')).read())
                            chains, names, isorigin = openssl_facts(d, res['der'], host, hostkind, origin_der) if res['der'] else (False, False, False)
                            cid = len(cases) + 1
                            cases.append({'id': cid, 'cert': c, 'insecure': insecure, 'optout': optout, 'hostkind': hostkind, 'tlsok': res['tlsok'],
                                          'leafchains': chains, 'leafnames': names, 'isorigincert': isorigin, 'req': list(res['req']), 'resp': list(RESP),
                                          'ogot': list(ogot), 'cgot': list(res['cgot'])})
                            descs[cid] = {'origin_certificate': c, 'insecure': insecure, 'opt_out': optout, 'host': host, 'cache': round_,
                                          'connect_status': res['connect_status'].decode('latin1')}
    finally:
        for px, tmp in procs:
            px.stop()
            import shutil
            shutil.rmtree(tmp, ignore_errors=True)
        for o in origins.values():
            o.stop()
    results, rej = tlc.run_sharded('TraceTls', 'TraceTls.cfg', cases, shards=8, timeout=600)
    m = tlc.Merged(results)
    chk.add_tlc('TraceTls (%d real TLS conversations)' % len(cases), m)
    if m.status == 'failed':
        raise MachineryError('TraceTls: ' + m.brief())
    chk.traces(len(cases))
    byid = {c['id']: c for c in cases}
    for cid, clause in rej:
        d_, c = descs[cid], byid[cid]
        sig = {'clause': clause.split(' (')[0], 'host_kind': c['hostkind'], 'certificate': c['cert'], 'insecure': c['insecure'], 'opt_out': c['optout']}
        chk.violation(sig, '%s: %s' % (d_, clause), {'case': d_, 'facts': {k: c[k] for k in ('tlsok', 'leafchains', 'leafnames', 'isorigincert')},
                                                     'origin_got': bytes(c['ogot']).decode('latin1')[:200], 'client_got': bytes(c['cgot']).decode('latin1')[:200]})
    chk.cov['conversations'] = len(cases)
    chk.sample({'case': descs[1], 'facts': {k: cases[0][k] for k in ('tlsok', 'leafchains', 'leafnames', 'isorigincert')}})
    chk.assume('X.509 chain building, name matching and expiry are judged by OpenSSL (CPython ssl in the proxy and the origins, the openssl CLI for '
               'the presented leaf); the specification decides the protocol rule over those facts',
               'a Via field added inside the intercepted session is left unconstrained (the repository tests pin that none is added)',
               'hosts: the name localhost and the IPv4 literal 127.0.0.1; IPv6 literals are not exercised')


if __name__ == '__main__':
    main(run, 'C11')
