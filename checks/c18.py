"""C18 - the event bus delivers each event to every current subscriber exactly once, in order.

(S) spec/EventBus.tla: one FIFO queue, dispatcher table, per-subscription channels, breakage; TLC exhaustive:
    ExactlyOnceInOrder, NothingLost, DispatcherAlive, BreakIsolated (action property) over all interleavings of subscribe,
    unsubscribe (known, unknown, repeated), publish, break, dispatch.
(G) tlc -simulate behaviours.
(R) each behaviour is executed step by step on the REAL EventQueue + EventDispatcher.handle_event with real
    multiprocessing pipes; a break closes the subscriber's reading end.
(V) spec/TraceBus.tla: the state observed after every step must be the model's successor state.
"""
import multiprocessing as mp
import queue
import shutil
import tempfile
import threading

from harness import tlc, tlaval
from harness.common import main, MachineryError


def generate(consts, num, seed, depth):
    tmp = tempfile.mkdtemp(prefix='bus-gen-')
    try:
        r = tlc.run('EventBus', cfg_text='SPECIFICATION Spec\nCHECK_DEADLOCK FALSE\n', constants=consts, workers=1, timeout=600,
                    simulate='file=%s/b,num=%d' % (tmp, num), depth=depth, seed=seed)
        if r.status != 'ok':
            raise MachineryError('behaviour generation failed:\n' + r.brief())
        out, seen = [], set()
        for _f, b in tlaval.behaviours(tmp + '/b'):
            steps, prev = [], b[0][2]
            for act, _p, st in b[1:]:
                s = ''
                if act == 'Subscribe':
                    s = [x for x in st['cst'] if st['cst'][x] != prev['cst'][x]][0]
                elif act == 'Unsubscribe':
                    s = st['queue'][-1]['s']
                elif act == 'Break':
                    s = [x for x in st['broken'] if st['broken'][x] != prev['broken'][x]][0]
                steps.append((act, s))
                prev = st
            key = tuple(steps)
            if key in seen or not steps:
                continue
            seen.add(key)
            out.append(steps)
        return out, r
    finally:
        shutil.rmtree(tmp, ignore_errors=True)


def execute(steps, subs):
    from proxy.core.event import EventQueue, EventDispatcher, eventNames
    q = EventQueue(queue.Queue())
    d = EventDispatcher(threading.Event(), q)
    rd, hist, closed = {}, {s: [] for s in subs}, set()
    state = {'alive': True, 'err': '', 'npub': 0}

    def drain():
        for s, conn in rd.items():
            if s in closed:
                continue
            try:
                while conn.poll(0):
                    ev = conn.recv()
                    name = ev['event_name']
                    if name == eventNames.SUBSCRIBED:
                        hist[s].append(0)
                    elif name == eventNames.UNSUBSCRIBED:
                        hist[s].append(99)
                    else:
                        hist[s].append(ev['event_payload']['n'])
            except (EOFError, OSError):
                pass
    out = []
    for act, s in steps:
        try:
            if act == 'Subscribe':
                r, w = mp.Pipe(duplex=False)
                if s in rd and s not in closed:
                    rd[s].close()
                rd[s] = r
                closed.discard(s)
                hist[s] = []
                q.subscribe(s, w)
            elif act == 'Unsubscribe':
                q.unsubscribe(s)
            elif act == 'Publish':
                state['npub'] += 1
                q.publish('req', 1000, {'n': state['npub']}, 'harness')
            elif act == 'Break':
                rd[s].close()
                closed.add(s)
            elif act == 'Dispatch':
                d.handle_event(q.queue.get_nowait())
        except Exception as e:     # noqa: what run() would not survive either
            state['alive'] = False
            state['err'] = repr(e)[:150]
        drain()
        out.append({'act': act, 's': s, 'obs': {'alive': state['alive'], 'err': state['err'], 'table': sorted(d.subscribers),
                                                'chan': {x: list(hist[x]) for x in subs}}})
        if not state['alive']:
            break
    for conn in rd.values():
        try:
            conn.close()
        except Exception:
            pass
    return out


def run(chk):
    quick = chk.tier == 'quick'
    plan = [({'Subs': '{"a","b"}', 'NEV': 3, 'NOPS': 7}, ['a', 'b'], 1200 if quick else 6000, 22)]
    big = {'Subs': '{"a","b","c"}', 'NEV': 3, 'NOPS': 8 if quick else 9}
    plan.append((big, ['a', 'b', 'c'], 1200 if quick else 8000, 26))
    for consts, subs, num, depth in plan:
        if not (quick and len(subs) == 3):
            r = tlc.run('EventBus', 'EventBus.cfg', constants=consts, workers=16, timeout=1500, heap='8g')
            chk.add_tlc('EventBus %s (exhaustive)' % consts, r, exhaustive=True)
            chk.require_ok('EventBus', r)
        behs, g = generate(consts, num, chk.seed * 13 + len(subs), depth)
        chk.add_tlc('EventBus -simulate %d subscribers' % len(subs), g)
        traces = [{'id': n + 1, 'steps': execute(b, ['a', 'b', 'c'])} for n, b in enumerate(behs)]
        c3 = dict(consts)
        c3['Subs'] = '{"a","b","c"}'
        results, rej = tlc.run_sharded('TraceBus', 'TraceBus.cfg', traces, shards=16, timeout=900, constants=c3)
        m = tlc.Merged(results)
        chk.add_tlc('TraceBus (%d executions of the real dispatcher, %d subscribers)' % (len(traces), len(subs)), m)
        if m.status == 'failed' or any(x.status == 'violated' for x in results):
            raise MachineryError('TraceBus: ' + (m.brief() if m.status == 'failed' else [x for x in results if x.status == 'violated'][0].brief()))
        chk.traces(len(traces))
        for tid, rest in rej:
            idx, clause = rest.split('|', 1)
            t = traces[tid - 1]
            acts = [(s['act'], s['s']) for s in t['steps'][:int(idx)]]
            sig = {'clause': clause.split(' after ')[0].split(':')[0][:60], 'after': acts[-1][0], 'broken_before': any(a == 'Break' for a, _ in acts)}
            chk.violation(sig, 'history %s: %s' % (acts, clause), {'steps': t['steps'][:int(idx)]})
        chk.sample({'subscribers': len(subs), 'history': [(s['act'], s['s']) for s in traces[0]['steps']], 'final_observation': traces[0]['steps'][-1]['obs']})
    chk.assume('real multiprocessing pipes (simplex); a break is the subscriber closing its reading end, with or without unread data',
               'the dispatcher is driven through handle_event one queue entry at a time (run_once without the blocking get)')


if __name__ == '__main__':
    main(run, 'C18')
