"""C18 - the event bus delivers each event to every current subscriber exactly once, in order.

(S) spec/EventBus.tla: one FIFO queue, dispatcher table, per-subscription channels, breakage; TLC exhaustive:
    ExactlyOnceInOrder, NothingLost, DispatcherAlive, BreakIsolated (action property) over all interleavings of subscribe,
    unsubscribe (known, unknown, repeated), publish, break, dispatch.
(G) tlc -simulate behaviours.
(R) each behaviour is executed step by step on the REAL EventQueue + EventDispatcher.handle_event with real
    multiprocessing pipes; a break closes the subscriber's reading end.
(V) spec/TraceBus.tla: the state observed after every step must be the model's successor state.
"""
import multiprocessing as mp
import queue
import shutil
import tempfile
import threading

from harness import tlc, tlaval
from harness.common import main, MachineryError


def generate(consts, num, seed, depth):
    tmp = tempfile.mkdtemp(prefix='bus-gen-')
    try:
        r = tlc.run('EventBus', cfg_text='SPECIFICATION Spec\nCHECK_DEADLOCK FALSE\n', constants=consts, workers=1, timeout=600,
                    simulate='file=%s/b,num=%d' % (tmp, num), depth=depth, seed=seed)
        if r.status != 'ok':
            raise MachineryError('behaviour generation failed:\n' + r.brief())
        out, seen = [], set()
        for _f, b in tlaval.behaviours(tmp + '/b'):
            steps, prev = [], b[0][2]
            for act, _p, st in b[1:]:
                s = ''
                if act == 'Subscribe':
                    s = [x for x in st['cst'] if st['cst'][x] != prev['cst'][x]][0]
                elif act == 'Unsubscribe':
                    s = st['queue'][-1]['s']
                elif act == 'Break':
                    s = [x for x in st['broken'] if st['broken'][x] != prev['broken'][x]][0]
                steps.append((act, s))
                prev = st
            key = tuple(steps)
            if key in seen or not steps:
                continue
            seen.add(key)
            out.append(steps)
        return out, r
    finally:
        shutil.rmtree(tmp, ignore_errors=True)


def execute(steps, subs):
    from proxy.core.event import EventQueue, EventDispatcher, eventNames
    q = EventQueue(queue.Queue())
    d = EventDispatcher(threading.Event(), q)
    rd, hist, closed = {}, {s: [] for s in subs}, set()
    state = {'alive': True, 'err': '', 'npub': 0}

    def drain():
        for s, conn in rd.items():
            if s in closed:
                continue
            try:
                while conn.poll(0):
                    ev = conn.recv()
                    name = ev['event_name']
                    if name == eventNames.SUBSCRIBED:
                        hist[s].append(0)
                    elif name == eventNames.UNSUBSCRIBED:
                        hist[s].append(99)
                    else:
                        hist[s].append(ev['event_payload']['n'])
            except (EOFError, OSError):
                pass
    out = []
    for act, s in steps:
        try:
            if act == 'Subscribe':
                r, w = mp.Pipe(duplex=False)
                if s in rd and s not in closed:
                    rd[s].close()
                rd[s] = r
                closed.discard(s)
                hist[s] = []
                q.subscribe(s, w)
            elif act == 'Unsubscribe':
                q.unsubscribe(s)
            elif act == 'Publish':
                state['npub'] += 1
                q.publish('req', 1000, {'n': state['npub']}, 'harness')
            elif act == 'Break':
                rd[s].close()
                closed.add(s)
            elif act == 'Dispatch':
                d.handle_event(q.queue.get_nowait())
        except Exception as e:     # noqa: what run() would not survive either
            state['alive'] = False
            state['err'] = repr(e)[:150]
        drain()
        out.append({'act': act, 's': s, 'obs': {'alive': state['alive'], 'err': state['err'], 'table': sorted(d.subscribers),
                                                'chan': {x: list(hist[x]) for x in subs}}})
        if not state['alive']:
            break
    for conn in rd.values():
        try:
            conn.close()
        except Exception:
            pass
    return out


def execute_live(job):
    """One history on the real EventManager (dispatcher thread, multiprocessing.Queue) and real EventSubscriber objects
    (relay threads + callbacks).  -> case for TraceBusLive"""
    import time
    from proxy.core.event import EventManager, EventSubscriber
    cid, steps = job
    mgr = EventManager()
    mgr.setup()
    subs, got, ops = {}, {s: [] for s in 'abc'}, []
    npub = 0
    err = ''

    def cb(s):
        def f(ev):
            got[s][-1].append(ev['event_payload']['n'])
        return f
    try:
        for act, s in steps:
            if act == 'Subscribe' and s not in subs:
                got[s].append([])
                sub = EventSubscriber(mgr.queue, cb(s))
                sub.setup()
                subs[s] = sub
                ops.append({'act': act, 's': s})
            elif act == 'Unsubscribe' and s in subs:
                subs.pop(s).shutdown()
                ops.append({'act': act, 's': s})
            elif act == 'Publish':
                npub += 1
                mgr.queue.publish('req', 1000, {'n': npub}, 'harness')
                ops.append({'act': act, 's': ''})
        # every remaining subscriber leaves through shutdown(): no waiting on the harness side, what was published while
        # it was subscribed has to have reached its callback when shutdown() returns
        for s in sorted(subs):
            subs.pop(s).shutdown()
            ops.append({'act': 'Unsubscribe', 's': s})
        alive = mgr.dispatcher_thread.is_alive()
    except Exception as e:     # noqa
        err = repr(e)[:200]
        alive = mgr.dispatcher_thread.is_alive() if mgr.dispatcher_thread else False
    finally:
        try:
            mgr.shutdown()
        except Exception as e:     # noqa
            err = err or repr(e)[:200]
    return {'id': cid, 'ops': ops, 'got': got, 'alive': bool(alive) and not err, 'err': err}


def run_live(chk, behs, consts):
    from harness.common import pmap, Hung
    jobs = []
    for b in behs:
        steps = [(a, s) for a, s in b if a in ('Subscribe', 'Unsubscribe', 'Publish')]
        if sum(1 for a, _ in steps if a == 'Publish') and any(a == 'Subscribe' for a, _ in steps):
            jobs.append((len(jobs) + 1, steps))
    cases = []
    for job, res in zip(jobs, pmap(execute_live, jobs, chunksize=2, watchdog=180)):
        if isinstance(res, Hung):
            chk.violation({'clause': 'C18 the live event bus never finished a history', 'part': 'live'}, 'history %s: still running after 180 s' % (job[1],),
                          {'steps': job[1], 'stack': res.where})
            continue
        cases.append(res)
    c3 = dict(consts)
    c3.update({'Subs': '{"a","b","c"}', 'NEV': 1000, 'NOPS': 1000})
    results, rej = tlc.run_sharded('TraceBusLive', 'TraceBusLive.cfg', cases, shards=16, timeout=900, constants=c3)
    m = tlc.Merged(results)
    chk.add_tlc('TraceBusLive (%d histories on the real EventManager / EventSubscriber threads)' % len(cases), m)
    if m.status == 'failed' or any(x.status == 'violated' for x in results):
        raise MachineryError('TraceBusLive: ' + (m.brief() if m.status == 'failed' else [x for x in results if x.status == 'violated'][0].brief()))
    chk.traces(len(cases))
    byid = {c['id']: c for c in cases}
    for cid, clause in rej:
        if clause.startswith('machinery'):
            raise MachineryError('live case %d: %s (%s)' % (cid, clause, byid[cid]['ops']))
        c = byid[cid]
        acts = [(o['act'], o['s']) for o in c['ops']]
        lost_at_unsub = 'events published while subscribed' in clause
        chk.violation({'clause': clause.split(':')[0][:40] if not lost_at_unsub else 'C18 callback deliveries differ from the events published while subscribed', 'part': 'live'},
                      'live history %s: %s' % (acts, clause), {'ops': c['ops'], 'callbacks': c['got']})
    if cases:
        chk.sample({'part': 'live event bus', 'history': [(o['act'], o['s']) for o in cases[0]['ops']], 'callbacks': cases[0]['got']})
    chk.cov['live_histories'] = len(cases)


def run(chk):
    quick = chk.tier == 'quick'
    plan = [({'Subs': '{"a","b"}', 'NEV': 3, 'NOPS': 7}, ['a', 'b'], 1200 if quick else 6000, 22)]
    big = {'Subs': '{"a","b","c"}', 'NEV': 3, 'NOPS': 8 if quick else 9}
    plan.append((big, ['a', 'b', 'c'], 1200 if quick else 8000, 26))
    for consts, subs, num, depth in plan:
        if not (quick and len(subs) == 3):
            r = tlc.run('EventBus', 'EventBus.cfg', constants=consts, workers=16, timeout=1500, heap='8g')
            chk.add_tlc('EventBus %s (exhaustive)' % consts, r, exhaustive=True)
            chk.require_ok('EventBus', r)
        behs, g = generate(consts, num, chk.seed * 13 + len(subs), depth)
        chk.add_tlc('EventBus -simulate %d subscribers' % len(subs), g)
        traces = [{'id': n + 1, 'steps': execute(b, ['a', 'b', 'c'])} for n, b in enumerate(behs)]
        c3 = dict(consts)
        c3['Subs'] = '{"a","b","c"}'
        results, rej = tlc.run_sharded('TraceBus', 'TraceBus.cfg', traces, shards=16, timeout=900, constants=c3)
        m = tlc.Merged(results)
        chk.add_tlc('TraceBus (%d executions of the real dispatcher, %d subscribers)' % (len(traces), len(subs)), m)
        if m.status == 'failed' or any(x.status == 'violated' for x in results):
            raise MachineryError('TraceBus: ' + (m.brief() if m.status == 'failed' else [x for x in results if x.status == 'violated'][0].brief()))
        chk.traces(len(traces))
        for tid, rest in rej:
            idx, clause = rest.split('|', 1)
            t = traces[tid - 1]
            acts = [(s['act'], s['s']) for s in t['steps'][:int(idx)]]
            sig = {'clause': clause.split(' after ')[0].split(':')[0][:60], 'after': acts[-1][0], 'broken_before': any(a == 'Break' for a, _ in acts)}
            chk.violation(sig, 'history %s: %s' % (acts, clause), {'steps': t['steps'][:int(idx)]})
        if len(subs) == 3:
            run_live(chk, behs[:(48 if quick else 400)], consts)
        chk.sample({'subscribers': len(subs), 'history': [(s['act'], s['s']) for s in traces[0]['steps']], 'final_observation': traces[0]['steps'][-1]['obs']})
    chk.assume('live part: one issuing thread (the queue order is the issue order); every subscriber stays until its own shutdown()',
               'real multiprocessing pipes (simplex); a break is the subscriber closing its reading end, with or without unread data',
               'the dispatcher is driven through handle_event one queue entry at a time (run_once without the blocking get)')


if __name__ == '__main__':
    main(run, 'C18')
