"""C05 - one connection cannot take down or stall the executor serving the others.

(S) spec/Executor.tla: the Threadless loop over black-box works whose calls return or raise; FIX = FALSE (as first found)
    violates LoopSurvives at three call sites, FIX = TRUE (what the property demands) satisfies LoopSurvives, NoResidue and,
    under fairness, CanaryCompletes.
(i)  tlc -simulate behaviours of the FIX = TRUE model are executed step by step on the REAL Threadless (LocalFdExecutor on
     SimNet) with scripted works that raise where the behaviour says; the abstract state observed after every step is
     validated by TLC (spec/TraceExecutor.tla) against the model's successor state.
(ii) the REAL handler stack: an adversarial connection (inputs of the C06 grammar, aborts at every point, every socket
     error the socket layer can raise at every call, failing upstreams; forward / tunnel / web / reverse roles) shares the
     executor with a canary connection and is followed by another one; TLC (spec/TraceIsolation.tla) compares the canary's
     outcome with its outcome alone.
"""
import errno
import random
import selectors
import shutil
import socket
import ssl
import tempfile

from harness import tlc, tlaval, scen, simdrive
from harness.common import main, MachineryError
from checks.c06 import inputs as c06_inputs

K = 3
ARM = {'site': None, 'want': 'go', 'progress': 0, 'finished': [], 'mask': 'r', 'alt': None, 'swapped': False}


def fault_work_class():
    from proxy.core.work import Work

    class FaultWork(Work):
        @staticmethod
        def create(*args):
            return args         # (conn, addr)

        def role(self):
            return 'adv' if self.work[1][1] == 666 else 'can'

        def _boom(self, site):
            if self.role() == 'adv' and ARM['site'] == site:
                ARM['site'] = None
                raise RuntimeError('injected fault in %s' % site)

        def initialize(self):
            self._boom('initialize')

        async def get_events(self):
            self._boom('get_events')
            fd = self.work[0].fileno()
            if self.role() == 'adv' and ARM['swapped'] and ARM['alt'] is not None:
                fd = ARM['alt'].fileno()        # the work replaced a connection of its own: another descriptor from now on
            if self.role() == 'adv' and ARM['mask'] == 'rw':
                return {fd: selectors.EVENT_READ | selectors.EVENT_WRITE}
            return {fd: selectors.EVENT_READ}

        async def handle_events(self, r, w):
            if self.role() == 'adv':
                self._boom('handle_events')
                return ARM['want'] == 'teardown'
            ARM['progress'] += 1
            return ARM['progress'] == K

        def is_inactive(self):
            self._boom('is_inactive')
            return False

        def shutdown(self):
            ARM['finished'].append(self.role())
            self.work[0].close()
            self._boom('shutdown')
    return FaultWork


def generate(num, seed):
    tmp = tempfile.mkdtemp(prefix='exec-gen-')
    try:
        r = tlc.run('Executor', cfg_text='SPECIFICATION Spec\nCONSTANTS\n K = %d\n FIX = TRUE\nCHECK_DEADLOCK FALSE\n' % K, workers=1, timeout=600,
                    simulate='file=%s/b,num=%d' % (tmp, num), depth=14, seed=seed)
        if r.status != 'ok':
            raise MachineryError('behaviour generation failed:\n' + r.brief())
        out, seen = [], set()
        for _f, b in tlaval.behaviours(tmp + '/b'):
            steps = []
            prev = b[0][2]
            for act, _p, st in b[1:]:
                site = st['armed'] if act == 'Arm' else ''
                steps.append((act, site))
                prev = st
            key = (tuple(b[0][2]['pending']), tuple(steps))
            if key in seen or not steps:
                continue
            seen.add(key)
            out.append({'pending': list(b[0][2]['pending']), 'steps': steps})
        return out, r
    finally:
        shutil.rmtree(tmp, ignore_errors=True)


def execute_scripted(case, klass):
    ARM.update({'site': None, 'want': 'go', 'progress': 0, 'finished': [], 'mask': 'r', 'alt': None, 'swapped': False})
    sim = simdrive.Sim(args=[], flag_opts={'work_klass': klass})
    roles = {}
    for w in case['pending']:
        p = sim.accept(addr=('192.0.2.9', 666 if w == 'adv' else 777))
        p.write(b'x')               # keeps the work's descriptor readable in every iteration
        roles[p.proxy_side.fd] = w

    alt_a, alt_b = sim.world.pair('x', 'X')         # the descriptor the adversary's work switches to on Swap
    alt_b.send(b'x') if hasattr(alt_b, 'send') else None
    ARM['alt'] = alt_a
    advfd = {fd: 'main' for fd, w in roles.items() if w == 'adv'}
    advfd[alt_a.fileno()] = 'alt'

    def obs():
        ex = sim.ex
        return {'alive': sim.alive, 'err': repr(sim.loop_error)[:120] if sim.loop_error else '',
                'works': sorted(roles.get(k, '?') for k in ex.works),
                'registered': sorted(roles.get(k, '?') for k in ex.registered_events_by_work_ids),
                'finished': sorted(set(ARM['finished'])), 'progress': ARM['progress'],
                'regfds': sorted(advfd.get(fd, '?') for k, m in ex.registered_events_by_work_ids.items() if roles.get(k) == 'adv' for fd in m)}
    steps = []
    for act, site in case['steps']:
        if act == 'Arm':
            ARM['site'] = site
        elif act == 'WantTeardown':
            ARM['want'] = 'teardown'
        elif act == 'WantWrite':
            ARM['mask'] = 'rw'
        elif act == 'Swap':
            ARM['swapped'] = True
        elif act == 'Vanish':
            # the selector silently loses the adversary's descriptor (what epoll does when the number is closed / reused)
            for fd, w in roles.items():
                if w == 'adv':
                    sim.ex.selector.map.pop(fd, None)
                    sim.ex.selector._gen.pop(fd, None)
        elif act == 'Tick':
            sim.tick()
        elif act == 'Reap':
            sim.reap()
        steps.append({'act': act, 'site': site, 'obs': obs()})
        if not sim.alive:
            break
    return steps


# ---------------------------------------------------------------------------------------------------------------
# (ii) real handler stack: adversary + canary
# ---------------------------------------------------------------------------------------------------------------
CANARY_REQ = b'GET http://canary.example/c HTTP/1.1\r\nHost: canary.example\r\n\r\n'
CANARY_RESP = b'HTTP/1.1 200 OK\r\nContent-Length: 6\r\n\r\ncanary'
ERRORS = [('ConnectionResetError', lambda: ConnectionResetError(errno.ECONNRESET, 'reset')),
          ('BrokenPipeError', lambda: BrokenPipeError(errno.EPIPE, 'pipe')),
          ('TimeoutError', lambda: TimeoutError(errno.ETIMEDOUT, 'timed out')),
          ('OSError-EHOSTUNREACH', lambda: OSError(errno.EHOSTUNREACH, 'unreachable')),
          ('OSError-ENOTCONN', lambda: OSError(errno.ENOTCONN, 'not connected')),
          ('OSError-EBADF', lambda: OSError(errno.EBADF, 'bad fd')),
          ('SSLWantReadError', lambda: ssl.SSLWantReadError()),
          ('SSLWantWriteError', lambda: ssl.SSLWantWriteError())]


def role_setup(role):
    from checks.c04 import reverse_plugin, web_plugins
    if role in ('forward', 'tunnel'):
        return [], {}
    if role == 'web':
        return ['--enable-web-server'], {'plugins': web_plugins([])}
    if role == 'websocket':
        from harness import testplugins
        return ['--enable-web-server'], {'plugins': [testplugins.ws_sink_plugin()]}
    return ['--enable-reverse-proxy'], {'plugins': [reverse_plugin()]}


def adversaries(rnd, quick):
    """-> list of (description, role, script) ; script = list of steps for the adversarial connection; a step may also be
    ('arm', which socket: 'c' | 'u', op, error name)."""
    out = []
    reqs = {'forward': b'POST http://a.example/x HTTP/1.1\r\nHost: a.example\r\nContent-Length: 4\r\n\r\nbody',
            'tunnel': b'CONNECT a.example:443 HTTP/1.1\r\nHost: a.example:443\r\n\r\n',
            'web': b'GET /a/r1 HTTP/1.1\r\nHost: p\r\n\r\n',
            'reverse': b'GET /a/r1 HTTP/1.1\r\nHost: p\r\nX-K: 1\r\n\r\n'}
    resp = b'HTTP/1.1 200 OK\r\nContent-Length: 2\r\n\r\nok'
    for role, req in reqs.items():
        base = [('c', req[:10]), ('c', req[10:]), ('u', 1, resp), ('c', b'more-bytes-after'), ('u', 1, b'tunnel-or-late-bytes')]
        # aborts at every point
        for cut in range(len(base) + 1):
            for ab in ('cclose', 'creset', 'cshut', 'uclose', 'ureset', 'ushut'):
                if quick and rnd.random() > 0.35:
                    continue
                st = (ab,) if ab.startswith('c') else (ab, 1)
                out.append(('%s: %s after step %d' % (role, ab, cut), role, base[:cut] + [st] + base[cut:cut + 1], 'accept'))
        # injected socket errors at every call kind, at every point
        for cut in range(len(base)):
            for sock in ('c', 'u'):
                for op in ('recv', 'send', 'shutdown'):
                    for ename, _mk in ERRORS:
                        if quick and rnd.random() > 0.12:
                            continue
                        out.append(('%s: %s on %s socket armed after step %d: %s' % (role, op, sock, cut, ename), role,
                                    base[:cut] + [('arm', sock, op, ename)] + base[cut:], 'accept'))
        # a well-formed keep-alive conversation of two requests, then the adversary leaves
        if role != 'tunnel':
            req2 = req.replace(b'/r1', b'/r2').replace(b'/x ', b'/y ')
            out.append(('%s: two keep-alive requests, then close' % role, role,
                        [('c', req), ('u', 1, resp), ('c', req2), ('u', 2 if role == 'reverse' else 1, resp), ('cclose',)], 'accept'))
            out.append(('%s: two keep-alive requests, second before the first answer' % role, role,
                        [('c', req), ('c', req2), ('u', 1, resp), ('u', 2 if role == 'reverse' else 1, resp), ('cclose',)], 'accept'))
        if role == 'reverse':
            # follow-up requests routed to ANOTHER upstream (and back): the connection to the previous upstream has to go properly
            reqb = req.replace(b'/a/r1', b'/b/r2')
            reqa = req.replace(b'/a/r1', b'/a/r3')
            out.append(('reverse: keep-alive requests to upstream a, then b, then close', role,
                        [('c', req), ('u', 1, resp), ('c', reqb), ('u', 2, resp), ('cclose',)], 'accept'))
            out.append(('reverse: keep-alive requests to upstream a, b, a, then close', role,
                        [('c', req), ('u', 1, resp), ('c', reqb), ('u', 2, resp), ('c', reqa), ('u', 3, resp), ('cclose',)], 'accept'))
        # failing upstreams
        for how in ('refuse', 'timeout', 'gaierror', 'unreach'):
            out.append(('%s: upstream connect %s' % (role, how), role, base[:3], how))
    # bytes that are not UTF-8 where the proxy decodes for its access log (request line, User-Agent, status line)
    for role, req in reqs.items():
        if role == 'tunnel':
            continue
        line, rest = req.split(b'\r\n', 1)
        variants = [('User-Agent', line + b'\r\nUser-Agent: \xff\xfe agent\r\n' + rest, resp),
                    ('status line', req, b'HTTP/1.1 200 \xff\xfe\r\nContent-Length: 2\r\n\r\nok')]
        if role == 'forward':
            variants.append(('request path', req.replace(b'/x ', b'/x\xff\xfe '), resp))
        for what, r_, a_ in variants:
            out.append(('%s: non-UTF-8 %s, complete exchange, then close' % (role, what), role, [('c', r_), ('u', 1, a_), ('cclose',)], 'accept'))
    # inputs that have stalled the parser before (conflicting repeated length fields)
    for role in ('forward', 'web'):
        for second in (b'0', b'-5'):
            raw = (b'POST http://a.example/x HTTP/1.1' if role == 'forward' else b'POST /a/r1 HTTP/1.1') + \
                b'\r\nHost: a.example\r\nContent-Length: 3\r\nContent-Length: ' + second + b'\r\n\r\nabcdefghij'
            out.append(('%s: input with Content-Length 3 then %s' % (role, second.decode()), role, [('c', raw), ('u', 1, resp)], 'accept'))
    # an upgraded WebSocket connection whose segments end inside a frame (header octet alone, extended length / masking key cut,
    # partial payload, a frame followed by one octet of the next, absurd 64-bit length), left hanging or closed afterwards
    up = b'GET /ws HTTP/1.1\r\nHost: w\r\nUpgrade: websocket\r\nConnection: Upgrade\r\nSec-WebSocket-Key: dGhlIHNhbXBsZSBub25jZQ==\r\n' \
         b'Sec-WebSocket-Version: 13\r\n\r\n'
    whole = b'\x81\x85\x01\x02\x03\x04' + bytes(b ^ k for b, k in zip(b'hello', b'\x01\x02\x03\x04\x01'))
    frags = [('one octet', b'\x81'), ('two octets, extended length missing', b'\x81\xfe'), ('masking key cut', b'\x81\x85\x01\x02'),
             ('payload cut', b'\x81\x05hel'), ('a frame and one octet of the next', whole + b'\x81'), ('a frame', whole),
             ('64-bit length of 2^63, no payload', b'\x82\xff\x80' + b'\x00' * 7), ('16-bit length cut', b'\x82\x7e\x01'),
             ('reserved opcode, empty', b'\x8f\x00'), ('close frame', b'\x88\x80\x00\x00\x00\x00')]
    for what, frag in frags:
        for tail in ([], [('c', b'\x01')], [('cclose',)], [('c', whole), ('cclose',)]):
            if quick and tail and rnd.random() > 0.5:
                continue
            out.append(('websocket: upgraded connection, segment = %s%s' % (what, ', then %s' % tail[-1][0] if tail else ''), 'websocket',
                        [('c', up), ('c', frag)] + tail, 'accept'))
    # arbitrary / malformed inputs
    for raw, kind in c06_inputs(rnd, 60 if quick else 600):
        role = rnd.choice(['forward', 'web'])
        out.append(('%s: input %s' % (role, kind), role, [('c', p) for p in scen.pieces(raw, rnd, rnd.choice(['one', 'two', 'few']))] +
                    [('u', 1, resp)], 'accept'))
    return out


def run_pair(role, script, how, with_adversary):
    args, opts = role_setup(role)
    conv = scen.Conversation(args=args, flag_opts=opts or None,
                             origins={'a.example': how, ('a.example', 80): how, ('a.example', 443): how})
    sim = conv.sim
    errs = dict(ERRORS)
    can = conv.client(addr=('192.0.2.50', 5000))
    adv = conv.client(addr=('192.0.2.66', 6000)) if with_adversary else None
    can_up = {'peer': None}

    def canary_origin():
        for p in sim.upstreams:
            if p.addr and p.addr[0] == 'canary.example':
                return p
        return None
    can_steps = [('c', CANARY_REQ[:20]), ('c', CANARY_REQ[20:]), 'answer', 'idle', 'idle', 'idle']
    adv_steps = list(script) if with_adversary else []
    n = max(len(can_steps), len(adv_steps))
    adv_ups = []
    for k in range(n):
        if k < len(adv_steps):
            st = adv_steps[k]
            ups = [p for p in sim.upstreams if not (p.addr and p.addr[0] == 'canary.example')]
            if st[0] == 'arm':
                _, which, op, ename = st
                target = None
                if which == 'c':
                    ps = adv.proxy_side
                    target = ps if ps is not None and not ps.closed else None
                elif ups:
                    target = ups[0].sock.peer
                if target is not None and not target.closed:
                    target.arm(op, errs[ename]())
            elif st[0] == 'c':
                if not adv.closed:
                    adv.write(st[1])
            elif st[0] == 'u':
                ui = min(st[1], len(ups)) - 1
                if ups and not ups[ui].closed:
                    ups[ui].write(st[2])
            elif st[0] in ('cclose', 'creset', 'cshut'):
                getattr(adv, {'cclose': 'close', 'creset': 'reset', 'cshut': 'shut_wr'}[st[0]])()
            elif st[0] in ('uclose', 'ureset', 'ushut'):
                if ups:
                    getattr(ups[0], {'uclose': 'close', 'ureset': 'reset', 'ushut': 'shut_wr'}[st[0]])()
        if k < len(can_steps):
            st = can_steps[k]
            if st == 'answer':
                o = canary_origin()
                if o is not None and not o.closed:
                    o.write(CANARY_RESP)
            elif st != 'idle':
                can.write(st[1])
        conv.settle()
    o = canary_origin()
    res = {'cgot': list(can.got), 'ugot': list(o.got) if o else [], 'ceof': can.eof_seen}
    # a subsequent well-behaved connection on the same worker
    after = {'cgot': [], 'ugot': []}
    if sim.alive:
        c2 = conv.client(addr=('192.0.2.51', 5001))
        before = len(sim.upstreams)
        c2.write(CANARY_REQ)
        conv.settle()
        new = [p for p in sim.upstreams[before:] if p.addr and p.addr[0] == 'canary.example']
        if new:
            new[0].write(CANARY_RESP)
            conv.settle()
        after = {'cgot': list(c2.got), 'ugot': list(new[0].got) if new else []}
    return res, after, sim.alive, repr(sim.loop_error)[:160] if sim.loop_error else ''


def realnet_stalls(chk):
    """(iii) RealNet: TLS handshakes.  A client (or an upstream) that completes TCP and then stays silent must not keep the worker from
    serving a well-behaved connection: the canary must get the same answer as alone, within seconds."""
    import os
    import ssl as _ssl
    import time
    import threading
    from harness import realnet, tlsfix
    from checks.c11 import tls_origin, RESP as TLS_RESP
    d = tlsfix.ensure()
    cases, descs = [], {}
    origin = tls_origin(d, 'trusted')
    silent = socket.socket()
    silent.bind(('127.0.0.1', 0))
    silent.listen(8)
    procs = []

    def tls_canary(port, intercept_origin=None):
        t0 = time.time()
        out = b''
        try:
            s = socket.create_connection(('127.0.0.1', port), timeout=4)
            if intercept_origin is not None:
                s.sendall(b'CONNECT localhost:%d HTTP/1.1\r\nHost: localhost\r\n\r\n' % intercept_origin)
                head = b''
                s.settimeout(4)
                while b'\r\n\r\n' not in head:
                    x = s.recv(4096)
                    if not x:
                        break
                    head += x
                ctx = _ssl.create_default_context(cafile=os.path.join(d, 'ca-cert.pem'))
            else:
                ctx = _ssl.create_default_context(cafile=os.path.join(d, 'octa-cert.pem'))
            t = ctx.wrap_socket(s, server_hostname='localhost')
            t.sendall(b'GET /canary HTTP/1.1\r\nHost: localhost\r\n\r\n')
            out, _e = realnet.read_quiet(t, quiet=0.4, first=4.0)
            t.close()
        except Exception as e:     # noqa
            out = b'<canary failed: ' + type(e).__name__.encode() + b'>'
        return {'cgot': list(out[:300]), 'ugot': [], 'ceof': time.time() - t0 > 4.0}
    scenarios = []
    try:
        # A: TLS-terminating proxy (--key-file / --cert-file), adversary = TCP connect, then silence
        pa = realnet.ProxyProc('local', extra=['--enable-web-server', '--key-file', os.path.join(d, 'trusted-key.pem'), '--cert-file', os.path.join(d, 'trusted-cert.pem')])
        procs.append(pa)
        scenarios.append(('TLS termination: client connects and stays silent (no ClientHello)', pa, None,
                          lambda: [socket.create_connection(('127.0.0.1', pa.port))]))
        # B / C: TLS interception
        tmp = tempfile.mkdtemp(prefix='c05-certs-')
        pb = realnet.ProxyProc('local', extra=['--ca-key-file', os.path.join(d, 'ca-key.pem'), '--ca-cert-file', os.path.join(d, 'ca-cert.pem'),
                                               '--ca-signing-key-file', os.path.join(d, 'ca-signing-key.pem'), '--ca-cert-dir', tmp,
                                               '--ca-file', os.path.join(d, 'octa-cert.pem')])
        procs.append(pb)

        def adv_b():
            a = socket.create_connection(('127.0.0.1', pb.port))
            a.sendall(b'CONNECT localhost:%d HTTP/1.1\r\nHost: localhost\r\n\r\n' % origin.port)
            return [a]

        def adv_c():
            a = socket.create_connection(('127.0.0.1', pb.port))
            a.sendall(b'CONNECT localhost:%d HTTP/1.1\r\nHost: localhost\r\n\r\n' % silent.getsockname()[1])
            return [a]
        scenarios.append(('TLS interception: client sends CONNECT and then stays silent (no ClientHello)', pb, origin.port, adv_b))
        scenarios.append(('TLS interception: upstream accepts TCP and never answers the ClientHello', pb, origin.port, adv_c))
        for name, px, iport, adv in scenarios:
            tls_canary(px.port, iport)                      # warm-up (certificate generation)
            alone = tls_canary(px.port, iport)
            held = adv()
            time.sleep(0.4)
            with_ = tls_canary(px.port, iport)
            for h in held:
                h.close()
            time.sleep(0.5)
            after = tls_canary(px.port, iport)
            cid = 900000 + len(cases) + 1
            cases.append({'id': cid, 'alone': alone, 'with': with_, 'after': {'cgot': after['cgot'] if after['cgot'] != alone['cgot'] else alone['cgot'], 'ugot': []},
                          'alive': True, 'err': ''})
            descs[cid] = {'adversary': name, 'role': 'realnet-tls', 'script': []}
    finally:
        for p_ in procs:
            p_.stop()
        origin.stop()
        silent.close()
        if 'tmp' in locals():
            shutil.rmtree(tmp, ignore_errors=True)
    return cases, descs


_KLASS = []


def _scripted_job(case):
    if not _KLASS:
        _KLASS.append(fault_work_class())
    return execute_scripted(case, _KLASS[0])


def _pair_job(job):
    role, script, how = job
    return run_pair(role, script, how, True)


def run(chk):
    quick = chk.tier == 'quick'
    rnd = random.Random(chk.seed * 41 + 3)
    # ---- design ------------------------------------------------------------------------------------------------
    for fix in (True, False):
        r = tlc.run('Executor', 'Executor.cfg', constants={'K': K, 'FIX': 'TRUE' if fix else 'FALSE'}, workers=8, timeout=600)
        chk.add_tlc('Executor K=%d FIX=%s (exhaustive)' % (K, fix), r, exhaustive=True)
        if fix:
            chk.require_ok('Executor FIX=TRUE', r)
        elif r.status != 'violated':
            raise MachineryError('Executor FIX=FALSE is expected to violate LoopSurvives (vacuity guard):\n' + r.brief())
    # ---- (i) scripted works on the real Threadless -----------------------------------------------------------------
    behs, g = generate(4000 if quick else 20000, chk.seed * 3 + 1)
    chk.add_tlc('Executor -simulate', g)
    from harness.common import pmap
    traces = [{'id': n + 1, 'pending': case['pending'], 'steps': steps} for n, (case, steps) in enumerate(zip(behs, pmap(_scripted_job, behs, chunksize=32)))]
    results, rej = tlc.run_sharded('TraceExecutor', 'TraceExecutor.cfg', traces, shards=16, timeout=900)
    m = tlc.Merged(results)
    chk.add_tlc('TraceExecutor (%d executions of the real Threadless)' % len(traces), m)
    if m.status == 'failed' or any(x.status == 'violated' for x in results):
        raise MachineryError('TraceExecutor: ' + (m.brief() if m.status == 'failed' else [x for x in results if x.status == 'violated'][0].brief()))
    chk.traces(len(traces))
    for tid, rest in rej:
        idx, clause = rest.split('|', 1)
        if clause.startswith('machinery'):
            raise MachineryError('trace %d: %s' % (tid, clause))
        t = traces[tid - 1]
        st = t['steps'][int(idx) - 1]
        armed = [s['site'] for s in t['steps'][:int(idx)] if s['act'] == 'Arm']
        sig = {'part': 'scripted', 'clause': clause.split(' (')[0].split(':')[0][:60], 'site': armed[-1] if armed else ''}
        chk.violation(sig, 'scripted works %s, steps %s: %s' % (t['pending'], [(s['act'], s['site']) for s in t['steps'][:int(idx)]], clause),
                      {'trace': t, 'rejected_step': int(idx)})
    chk.sample({'part': 'scripted works', 'pending': traces[0]['pending'], 'steps': [(s['act'], s['site']) for s in traces[0]['steps']],
                'last_observation': traces[0]['steps'][-1]['obs']})
    # ---- (ii) real handler stack -----------------------------------------------------------------------------------
    from harness.common import pmap, Hung
    alone = {}
    cases, descs = [], {}
    advs = adversaries(rnd, quick)
    for role in sorted({a[1] for a in advs}):
        alone[role] = run_pair(role, [], 'accept', False)
        if not alone[role][2] or not alone[role][0]['cgot']:
            raise MachineryError('canary does not complete alone in role %s' % role)
    outcomes = pmap(_pair_job, [(role, script, how) for _d, role, script, how in advs], chunksize=4, watchdog=120)
    stalled = 0
    for (desc, role, script, how), out in zip(advs, outcomes):
        if isinstance(out, Hung):
            # the executor never came back from one of its works' steps: everything it serves is stalled for good
            stalled += 1
            where = [ln.strip() for ln in out.where.splitlines() if 'File' in ln][-2:]
            chk.violation({'part': 'handlers', 'clause': 'the executor never returned from handling the adversary (all its connections stall)', 'role': role},
                          '%s: the worker was still busy after 120 s, in %s' % (desc, where),
                          {'adversary': desc, 'role': role, 'script': [[x.decode('latin1')[:80] if isinstance(x, bytes) else x for x in st] for st in script],
                           'stack': out.where})
            continue
        res, after, alive, err = out
        cid = len(cases) + 1
        cases.append({'id': cid, 'alone': alone[role][0], 'with': res, 'after': after, 'alive': alive, 'err': err})
        descs[cid] = {'adversary': desc, 'role': role, 'script': [list(map(lambda x: x.decode('latin1')[:60] if isinstance(x, bytes) else x, s)) for s in script]}
    rcases, rdescs = realnet_stalls(chk)
    cases += rcases
    descs.update(rdescs)
    results, rej = tlc.run_sharded('TraceIsolation', 'TraceIsolation.cfg', cases, shards=16, timeout=900)
    m = tlc.Merged(results)
    chk.add_tlc('TraceIsolation (%d adversary/canary executions of the real handler stack)' % len(cases), m)
    if m.status == 'failed':
        raise MachineryError('TraceIsolation: ' + m.brief())
    chk.traces(len(cases))
    byid = {c['id']: c for c in cases}
    for cid, clause in rej:
        d = descs[cid]
        err = byid[cid]['err']
        sig = {'part': 'handlers', 'clause': clause.split(':')[0][:70], 'error': err.split('(')[0][:40], 'role': d['role']}
        if d['role'] == 'realnet-tls':
            sig = {'part': 'realnet-tls', 'adversary': d['adversary']}
        chk.violation(sig, '%s: %s' % (d['adversary'], clause), {'case': d, 'loop_error': err})
    chk.cov['adversaries'] = len(cases)
    chk.cov['adversaries_stalling_the_executor'] = stalled
    chk.sample({'part': 'handler stack', 'case': descs[1]})
    chk.assume('TLS handshakes are exercised on RealNet only: silent client / silent upstream against a real TLS-terminating or intercepting proxy',
               'peers act between loop iterations (reduction argument)',
               'socket errors are injected as one-shot faults on the proxy-side socket objects')


if __name__ == '__main__':
    main(run, 'C05')
