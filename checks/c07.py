"""C07 - queued output is fully delivered before the proxy closes a connection.

Same pipeline as C01 (ConnTick -> schedules -> real handler on SimNet -> TraceConn), on the scenario families in
which the proxy ENDS the connection after producing output: a proxy-made response queued in one or several pieces
(SCEN = "reject": mustFlush path), and upstream data followed by the upstream's close (SCEN = "http"/"tunnel").
Clauses of Conn.tla starting 'C07' belong to this property; liveness (Delivered, FlushedAndClosed, AllRead) is
checked by TLC on the design model under weak fairness of the loop and of the peers' reads.
"""
from checks import conn_common as cc
from harness.common import main, MachineryError


def _sum(b):
    return sum((i % 251 + 1) * x for i, x in enumerate(b)) % 1000003


def realnet_flush(chk, quick):
    """C07 on kernel sockets: REAL proxy processes in the three execution modes; the origin (or the proxy's own web server)
    produces output and ends the connection; the client keeps reading at its own pace (fast / slow / starting late)."""
    import gzip
    import os
    import shutil
    import socket
    import tempfile
    import threading
    import time
    from harness import realnet, tlc
    import random
    big = random.Random(5).randbytes((1 << 20) * (2 if quick else 6))      # incompressible: the static server's gzip does not shrink it

    def origin_beh(kind):
        def beh(idx, got):
            if b'\r\n\r\n' not in got or getattr(beh, 'done_%d' % idx, False):
                return None
            setattr(beh, 'done_%d' % idx, True)
            return 'close-after:' + kind
        return beh

    class SendAndClose(realnet.Origin):
        """Sends the configured output after the first complete request head, then closes."""
        def __init__(self, output):
            self.output = output
            super().__init__(b'F', behaviour=None)

        def _serve(self, c, rec, idx):
            try:
                c.settimeout(10)
                buf = b''
                while b'\r\n\r\n' not in buf:
                    d = c.recv(65536)
                    if not d:
                        return
                    buf += d
                rec['got'] += buf
                c.sendall(self.output)
            except Exception as e:     # noqa
                rec['err'] = repr(e)[:100]
            finally:
                c.close()

    outputs = {
        'close-delimited': b'HTTP/1.0 200 OK\r\nConnection: close\r\nX-Origin: F\r\n\r\n' + big,
        'content-length': b'HTTP/1.1 200 OK\r\nContent-Length: %d\r\nConnection: close\r\n\r\n' % len(big) + big,
        'tunnel': big[:len(big) // 2],
    }
    origins = {k: SendAndClose(v) for k, v in outputs.items()}
    static_dir = tempfile.mkdtemp(prefix='c07-static-')
    open(os.path.join(static_dir, 'big.bin'), 'wb').write(big)
    paces = [('fast', 0, 0.0), ('slow', 0, 0.004), ('late', 1.0, 0.0)] if quick else [('fast', 0, 0.0), ('slow', 0, 0.004), ('very slow', 0, 0.02), ('late', 1.5, 0.001)]
    cases, descs = [], {}

    def client(port, first, pace):
        name, delay, nap = pace
        s = socket.create_connection(('127.0.0.1', port), timeout=10)
        s.setsockopt(socket.SOL_SOCKET, socket.SO_RCVBUF, 65536)
        got, eof, tlast, teof = bytearray(), False, None, None
        try:
            s.sendall(first)
            if first.startswith(b'CONNECT'):
                head = b''
                while b'\r\n\r\n' not in head:
                    d = s.recv(1)
                    if not d:
                        break
                    head += d
                s.sendall(b'hello origin\r\n\r\n')
            time.sleep(delay)
            s.settimeout(20)
            while True:
                try:
                    d = s.recv(32768)
                except (socket.timeout, OSError):
                    break
                if not d:
                    eof, teof = True, time.time()
                    break
                got += d
                tlast = time.time()
                if nap:
                    time.sleep(nap)
        finally:
            s.close()
        wait_ms = int(((teof or time.time()) - (tlast or time.time())) * 1000)
        return bytes(got), eof, wait_ms
    try:
        for mode in ('threaded', 'local', 'remote'):
            px = realnet.ProxyProc(mode, extra=['--enable-web-server', '--enable-static-server', '--static-server-dir', static_dir, '--timeout', '30'])
            try:
                jobs = []
                for pace in paces:
                    for kind in ('close-delimited', 'content-length'):
                        o = origins[kind]
                        jobs.append((kind, pace, b'GET http://127.0.0.1:%d/x HTTP/1.1\r\nHost: 127.0.0.1:%d\r\n\r\n' % (o.port, o.port), outputs[kind], None))
                    o = origins['tunnel']
                    jobs.append(('tunnel', pace, b'CONNECT 127.0.0.1:%d HTTP/1.1\r\nHost: 127.0.0.1:%d\r\n\r\n' % (o.port, o.port), outputs['tunnel'], None))
                    jobs.append(('static file', pace, b'GET /big.bin HTTP/1.1\r\nHost: w\r\n\r\n', None, big))
                results = {}

                def work(n, job):
                    results[n] = client(px.port, job[2], job[1])
                ths = [threading.Thread(target=work, args=(n, j)) for n, j in enumerate(jobs)]
                for k in range(0, len(ths), 4):         # four clients at a time
                    for t in ths[k:k + 4]:
                        t.start()
                    for t in ths[k:k + 4]:
                        t.join(120)
                for n, (kind, pace, _first, exp_raw, exp_body) in enumerate(jobs):
                    got, eof, wait_ms = results.get(n, (b'', False, 0))
                    if exp_raw is not None:
                        exp, obs = exp_raw, got
                    else:           # proxy-made response: the body (after undoing the advertised content-encoding) is what is owed
                        head, _sep, body = got.partition(b'\r\n\r\n')
                        if b'content-encoding: gzip' in head.lower():
                            try:
                                body = gzip.decompress(body)
                            except Exception:     # noqa: truncated or damaged stream: what arrived stays as it is
                                pass
                        exp, obs = exp_body, body
                    cid = len(cases) + 1
                    cases.append({'id': cid, 'prop': 'C07', 'who': 'client', 'explen': len(exp), 'expsum': _sum(exp), 'gotlen': len(obs), 'gotsum': _sum(obs), 'eof': eof,
                                  'wait_ms': wait_ms, 'limit_ms': 5000})
                    descs[cid] = {'mode': mode, 'output': kind, 'client': pace[0], 'bytes_expected': len(exp), 'bytes_received': len(obs), 'eof': eof,
                                  'close_after_last_byte_ms': wait_ms}
            finally:
                px.stop()
    finally:
        for o in origins.values():
            o.stop()
        shutil.rmtree(static_dir, ignore_errors=True)
    results, rej = tlc.run_sharded('TraceFlush', 'TraceFlush.cfg', cases, shards=4, timeout=300)
    m = tlc.Merged(results)
    chk.add_tlc('TraceFlush (%d real transfers: 3 modes x outputs x client paces)' % len(cases), m)
    if m.status == 'failed':
        raise MachineryError('TraceFlush: ' + m.brief())
    chk.traces(len(cases))
    for cid, clause in rej:
        d = descs[cid]
        chk.violation({'part': 'realnet', 'clause': clause.split(' (')[0][:60] if 'received' not in clause else 'C07 output not delivered completely', 'mode': d['mode'], 'output': d['output']},
                      'kernel sockets, %s mode, %s, %s client: %s' % (d['mode'], d['output'], d['client'], clause), d)
    chk.cov['realnet_transfers'] = len(cases)
    if cases:
        chk.sample({'part': 'kernel sockets', 'case': descs[1]})


def reaper_part(chk, quick, rnd):
    """The OTHER road to a close: the inactivity reaper.  On SimNet a client that does not read lets output pile up in the proxy (tunnel
    stream / close-delimited response, upstream gone afterwards); the clock moves past --timeout and the reaper sweeps (once or several
    times); then the client reads on.  What was queued is still owed: TraceFlush.tla judges what the client finally holds."""
    from harness import scen, tlc
    cases, descs = [], {}
    for threaded in (False, True):
        for kind in ('tunnel', 'close-delimited'):
            for n in ([700, 6000] if quick else [300, 700, 6000, 70000]):
                for cap in (64, 256):
                    for sweeps in (1, 3):
                        conv = scen.Conversation(args=['--timeout', '10'], cap=cap, threaded=threaded)
                        c = conv.client()
                        if kind == 'tunnel':
                            c.write(b'CONNECT a.example:443 HTTP/1.1\r\nHost: a.example:443\r\n\r\n')
                        else:
                            c.write(b'GET http://a.example/x HTTP/1.1\r\nHost: a.example\r\n\r\n')
                        conv.settle()
                        if not conv.sim.upstreams:
                            raise MachineryError('reaper part: no upstream connection (%s)' % kind)
                        u = conv.sim.upstreams[0]
                        head = len(c.got)
                        out = (b'' if kind == 'tunnel' else b'HTTP/1.1 200 OK\r\nX-N: %d\r\n\r\n' % n) + bytes(rnd.randrange(256) for _ in range(n))
                        u.write(out)
                        conv.sim.quiesce(readers=[u], pumpers=[u])          # the client does not read: output piles up in the proxy
                        u.close()
                        conv.sim.quiesce(readers=[], pumpers=[])
                        for _ in range(sweeps):
                            conv.sim.world.now += 11
                            conv.sim.reap()
                            conv.sim.quiesce(readers=[], pumpers=[])
                        conv.settle()                                       # now the client reads until nothing moves
                        got = bytes(c.got[head:])
                        cid = len(cases) + 1
                        cases.append({'id': cid, 'prop': 'C07', 'who': 'client', 'explen': len(out), 'expsum': _sum(out), 'gotlen': len(got), 'gotsum': _sum(got),
                                      'eof': bool(c.eof_seen), 'wait_ms': 0, 'limit_ms': 1})
                        descs[cid] = {'mode': 'threaded' if threaded else 'threadless', 'output': kind, 'bytes': len(out), 'client_buffer': cap, 'sweeps': sweeps,
                                      'bytes_received': len(got), 'eof': bool(c.eof_seen), 'loop_alive': conv.sim.alive}
    results, rej = tlc.run_sharded('TraceFlush', 'TraceFlush.cfg', cases, shards=4, timeout=300)
    m = tlc.Merged(results)
    chk.add_tlc('TraceFlush (%d stalled clients across reaper sweeps)' % len(cases), m)
    if m.status == 'failed':
        raise MachineryError('TraceFlush (reaper part): ' + m.brief())
    chk.traces(len(cases))
    for cid, clause in rej:
        d = descs[cid]
        chk.violation({'part': 'reaper', 'clause': 'C07 output not delivered completely' if 'received' in clause else clause[:60], 'mode': d['mode'], 'output': d['output']},
                      'client stalled past the timeout with output queued, %d reaper sweep(s), %s mode, %s of %d bytes, client buffer %d: %s'
                      % (d['sweeps'], d['mode'], d['output'], d['bytes'], d['client_buffer'], clause), d)
    chk.cov['reaper_scenarios'] = len(cases)


def run(chk):
    quick = chk.tier == 'quick'
    seed = chk.seed
    plan = [
        # scen,  N, CAP, MAXSEND, RECV, OWN, units, framings
        ('reject', 3, 2, 1, 1, 3, [32, 64, 4096, 70000], ('cl',)),
        ('reject', 3, 1, 2, 1, 4, [40, 4096, 262144], ('cl',)),
        ('http', 4, 2, 2, 1, 3, [32, 61, 4096, 70000], ('cl', 'close', 'chunked', 'seq')),
        ('tunnel', 3, 2, 1, 2, 3, [1, 7, 4096], ('cl',)),
    ]
    if not quick:
        plan += [('reject', 3, 3, 2, 1, 6, [64, 4096, 1 << 20], ('cl',)),
                 ('http', 5, 3, 2, 2, 3, [40, 4096, 262144], ('cl', 'close', 'chunked', 'interim', 'seq')),
                 ('tunnel', 4, 3, 2, 2, 3, [1, 13, 65536], ('cl',))]
    num = 120 if quick else 600
    drift_total = 0
    for scen, N, CAP, MS, RV, OWN, units, framings in plan:
        cc.model_check(chk, scen, N, CAP, MS, RV, OWN=OWN, fix=False)
        if scen != 'tunnel' or not quick:
            # liveness on the design: the output is delivered and the connection closed
            small = (N if scen == 'reject' else min(N, 3))
            cc.model_check(chk, scen, small, CAP, MS, RV, OWN=OWN, fix=False, live=True)
        c = cc.consts(scen, N, CAP, MS, RV, OWN=OWN)
        behs = []
        for late in ((0, 6) if scen == 'reject' else (0, 8, 16)):
            b, r = cc.generate(scen, c, num, 50, seed=seed * 103 + late + N + OWN, late=late)
            chk.add_tlc('ConnTick.GenSpec -simulate %s late=%d' % (scen, late), r)
            behs += b
        n = {'N': N, 'CAP': CAP, 'MAXSEND': MS, 'RECV': RV, 'OWN': OWN}
        traces, drifts, infos = cc.replay_all(behs, scen, n, units, seed=seed + 29, framings=framings)
        # the same schedules with one handler per connection driven as --threaded mode does (own selector, run() loop iteration per
        # tick, shutdown() flushing with the blocking _flush()); judged by the same syscall-level clauses, no tick-level comparison
        t2, _d2, i2 = cc.replay_all(behs[::3], scen, n, units, seed=seed + 29 + 1, framings=framings, threaded=True)
        for t, i in zip(t2, i2):
            t['id'] = i['id'] = len(traces) + 1
            traces.append(t)
            infos.append(i)
        if scen in ('tunnel', 'http'):
            # proxy chaining: the relay runs through ProxyPoolPlugin / TcpUpstreamConnectionHandler (the upstream is another proxy)
            t4, _d4, i4 = cc.replay_all(behs[1::3], scen, n, units, seed=seed + 29 + 3, framings=framings, work='proxy-pool')
            for t, i in zip(t4, i4):
                t['id'] = i['id'] = len(traces) + 1
                traces.append(t)
                infos.append(i)
        if scen == 'tunnel':
            # the same schedules through the other relay implementation of the code base: a work class built on
            # BaseTcpTunnelHandler / BaseTcpServerHandler (examples/https_connect_tunnel.py), on the same executor
            t3, _d3, i3 = cc.replay_all(behs[::2], scen, n, [u for u in units if u * RV >= 64] or [64], seed=seed + 29 + 2, work='example-tunnel')
            for t, i in zip(t3, i3):
                t['id'] = i['id'] = len(traces) + 1
                traces.append(t)
                infos.append(i)
        drift_total += len(drifts)
        for d in drifts[:5]:
            print('MODEL-DRIFT (not a violation): ConnTick and the code disagree at step %(step)s (%(action)s) on %(var)s' % d, d,
                  scen, ' '.join(infos[d['id'] - 1]['schedule']), 'unit', infos[d['id'] - 1]['U'])
        rej = cc.validate(chk, traces, 'TraceConn %s N=%d CAP=%d OWN=%d' % (scen, N, CAP, OWN))
        for tid, idx, clause in rej:
            if clause.startswith('machinery'):
                raise MachineryError('trace %d rejected by a machinery clause: %s (%s)' % (tid, clause, infos[tid - 1]))
            if not (clause.startswith('C07') or clause.startswith('C01/C07')):
                continue                      # pure C01 clauses are judged by check C01 on the same scenario families
            sig = cc.classify(clause, traces[tid - 1], idx)
            info = infos[tid - 1]
            chk.violation(sig, '%s schedule %s (unit %d bytes, %d piece(s)): %s' % (
                scen + ('/threaded' if info.get('mode') == 'threaded' else '') + ('/BaseTcpTunnelHandler' if info.get('work') == 'example-tunnel' else '/ProxyPoolPlugin' if info.get('work') == 'proxy-pool' else ''), ' '.join(info['schedule']), info['U'], info['pieces'], clause),
                {'info': info, 'rejected_event_index': idx, 'events': traces[tid - 1]['ev'][max(0, idx - 12):idx + 1]})
        for info, tr in list(zip(infos, traces))[:2]:
            chk.sample({'scenario': info['scen'], 'unit_bytes': info['U'], 'pieces': info['pieces'], 'schedule': info['schedule'],
                        'events': len(tr['ev']), 'last_events': tr['ev'][-8:]})
    chk.cov['model_drift_runs'] = drift_total
    realnet_flush(chk, quick)
    import random
    reaper_part(chk, quick, random.Random(chk.seed * 71 + 3))
    chk.assume('peers act between loop iterations only (reduction argument, DESIGN.md 2.3)',
               'SimNet socket semantics stand for the kernel; a close() with unread input is not modelled as a reset',
               'promptness bound: the close must come within 2 loop iterations after the output is out',
               'kernel-socket part: loopback TCP, the origin closes right after its last byte; promptness bound 5 s (a loaded machine)')


if __name__ == '__main__':
    main(run, 'C07')
