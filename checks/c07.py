"""C07 - queued output is fully delivered before the proxy closes a connection.

Same pipeline as C01 (ConnTick -> schedules -> real handler on SimNet -> TraceConn), on the scenario families in
which the proxy ENDS the connection after producing output: a proxy-made response queued in one or several pieces
(SCEN = "reject": mustFlush path), and upstream data followed by the upstream's close (SCEN = "http"/"tunnel").
Clauses of Conn.tla starting 'C07' belong to this property; liveness (Delivered, FlushedAndClosed, AllRead) is
checked by TLC on the design model under weak fairness of the loop and of the peers' reads.
"""
from checks import conn_common as cc
from harness.common import main, MachineryError


def run(chk):
    quick = chk.tier == 'quick'
    seed = chk.seed
    plan = [
        # scen,  N, CAP, MAXSEND, RECV, OWN, units, framings
        ('reject', 3, 2, 1, 1, 3, [32, 64, 4096, 70000], ('cl',)),
        ('reject', 3, 1, 2, 1, 4, [40, 4096, 262144], ('cl',)),
        ('http', 4, 2, 2, 1, 3, [32, 61, 4096, 70000], ('cl', 'close', 'chunked', 'seq')),
        ('tunnel', 3, 2, 1, 2, 3, [1, 7, 4096], ('cl',)),
    ]
    if not quick:
        plan += [('reject', 3, 3, 2, 1, 6, [64, 4096, 1 << 20], ('cl',)),
                 ('http', 5, 3, 2, 2, 3, [40, 4096, 262144], ('cl', 'close', 'chunked', 'interim', 'seq')),
                 ('tunnel', 4, 3, 2, 2, 3, [1, 13, 65536], ('cl',))]
    num = 120 if quick else 600
    drift_total = 0
    for scen, N, CAP, MS, RV, OWN, units, framings in plan:
        cc.model_check(chk, scen, N, CAP, MS, RV, OWN=OWN, fix=False)
        if scen != 'tunnel' or not quick:
            # liveness on the design: the output is delivered and the connection closed
            small = (N if scen == 'reject' else min(N, 3))
            cc.model_check(chk, scen, small, CAP, MS, RV, OWN=OWN, fix=False, live=True)
        c = cc.consts(scen, N, CAP, MS, RV, OWN=OWN)
        behs = []
        for late in ((0, 6) if scen == 'reject' else (0, 8, 16)):
            b, r = cc.generate(scen, c, num, 50, seed=seed * 103 + late + N + OWN, late=late)
            chk.add_tlc('ConnTick.GenSpec -simulate %s late=%d' % (scen, late), r)
            behs += b
        n = {'N': N, 'CAP': CAP, 'MAXSEND': MS, 'RECV': RV, 'OWN': OWN}
        traces, drifts, infos = cc.replay_all(behs, scen, n, units, seed=seed + 29, framings=framings)
        # the same schedules with one handler per connection driven as --threaded mode does (own selector, run() loop iteration per
        # tick, shutdown() flushing with the blocking _flush()); judged by the same syscall-level clauses, no tick-level comparison
        t2, _d2, i2 = cc.replay_all(behs[::3], scen, n, units, seed=seed + 29 + 1, framings=framings, threaded=True)
        for t, i in zip(t2, i2):
            t['id'] = i['id'] = len(traces) + 1
            traces.append(t)
            infos.append(i)
        if scen in ('tunnel', 'http'):
            # proxy chaining: the relay runs through ProxyPoolPlugin / TcpUpstreamConnectionHandler (the upstream is another proxy)
            t4, _d4, i4 = cc.replay_all(behs[1::3], scen, n, units, seed=seed + 29 + 3, framings=framings, work='proxy-pool')
            for t, i in zip(t4, i4):
                t['id'] = i['id'] = len(traces) + 1
                traces.append(t)
                infos.append(i)
        if scen == 'tunnel':
            # the same schedules through the other relay implementation of the code base: a work class built on
            # BaseTcpTunnelHandler / BaseTcpServerHandler (examples/https_connect_tunnel.py), on the same executor
            t3, _d3, i3 = cc.replay_all(behs[::2], scen, n, [u for u in units if u * RV >= 64] or [64], seed=seed + 29 + 2, work='example-tunnel')
            for t, i in zip(t3, i3):
                t['id'] = i['id'] = len(traces) + 1
                traces.append(t)
                infos.append(i)
        drift_total += len(drifts)
        for d in drifts[:5]:
            print('MODEL-DRIFT (not a violation): ConnTick and the code disagree at step %(step)s (%(action)s) on %(var)s' % d, d,
                  scen, ' '.join(infos[d['id'] - 1]['schedule']), 'unit', infos[d['id'] - 1]['U'])
        rej = cc.validate(chk, traces, 'TraceConn %s N=%d CAP=%d OWN=%d' % (scen, N, CAP, OWN))
        for tid, idx, clause in rej:
            if clause.startswith('machinery'):
                raise MachineryError('trace %d rejected by a machinery clause: %s (%s)' % (tid, clause, infos[tid - 1]))
            if not (clause.startswith('C07') or clause.startswith('C01/C07')):
                continue                      # pure C01 clauses are judged by check C01 on the same scenario families
            sig = cc.classify(clause, traces[tid - 1], idx)
            info = infos[tid - 1]
            chk.violation(sig, '%s schedule %s (unit %d bytes, %d piece(s)): %s' % (
                scen + ('/threaded' if info.get('mode') == 'threaded' else '') + ('/BaseTcpTunnelHandler' if info.get('work') == 'example-tunnel' else '/ProxyPoolPlugin' if info.get('work') == 'proxy-pool' else ''), ' '.join(info['schedule']), info['U'], info['pieces'], clause),
                {'info': info, 'rejected_event_index': idx, 'events': traces[tid - 1]['ev'][max(0, idx - 12):idx + 1]})
        for info, tr in list(zip(infos, traces))[:2]:
            chk.sample({'scenario': info['scen'], 'unit_bytes': info['U'], 'pieces': info['pieces'], 'schedule': info['schedule'],
                        'events': len(tr['ev']), 'last_events': tr['ev'][-8:]})
    chk.cov['model_drift_runs'] = drift_total
    chk.assume('peers act between loop iterations only (reduction argument, DESIGN.md 2.3)',
               'SimNet socket semantics stand for the kernel; a close() with unread input is not modelled as a reset',
               'promptness bound: the close must come within 2 loop iterations after the output is out',
               'threaded mode (run() + _flush()) is exercised by the mode-equivalence check C17, not here')


if __name__ == '__main__':
    main(run, 'C07')
