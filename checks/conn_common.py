"""Shared by C01 and C07: ConnTick (design model, exhaustive) -> behaviours (tlc -simulate) -> replay on SimNet
-> TraceConn (batch validation of the recorded syscall traces)."""
import os
import random
import shutil
import tempfile

from harness import tlc, tlaval, conn_replay
from harness.common import MachineryError

ACT = {'LCShut': 'CShut', 'LUShut': 'UShut', 'LCClose': 'CClose', 'LUClose': 'UClose'}


def consts(scen, N, CAP, MAXSEND, RECV, OWN=3, fix=False, late=0):
    return {'N': N, 'CAP': CAP, 'MAXSEND': MAXSEND, 'RECV': RECV, 'OWN': OWN, 'SCEN': '"%s"' % scen,
            'FIX': 'TRUE' if fix else 'FALSE', 'LATE': late}


def model_check(chk, scen, N, CAP, MAXSEND, RECV, OWN=3, fix=False, live=False, timeout=900):
    c = consts(scen, N, CAP, MAXSEND, RECV, OWN, fix)
    name = 'ConnTick %s N=%d CAP=%d MAXSEND=%d RECV=%d %s%s' % (scen, N, CAP, MAXSEND, RECV, 'FIX' if fix else 'as-built',
                                                               ' liveness' if live else '')
    r = tlc.run('ConnTick', 'ConnTickLive.cfg' if live else 'ConnTick.cfg', constants=c, workers=16, timeout=timeout)
    chk.add_tlc(name, r, exhaustive=True)
    chk.require_ok(name, r)
    return r


def generate(scen, c, num, depth, seed, late):
    """-> list of behaviours [(action, params, state)], duplicates (same action sequence) removed."""
    tmp = tempfile.mkdtemp(prefix='conn-gen-')
    try:
        cc = dict(c)
        cc['LATE'] = late
        r = tlc.run('ConnTick', 'ConnTickGen.cfg', constants=cc, workers=1, timeout=600,
                    simulate='file=%s/b,num=%d' % (tmp, num), depth=depth, seed=seed)
        if r.status != 'ok':
            raise MachineryError('behaviour generation failed:\n' + r.brief())
        out, seen = [], set()
        for _f, b in tlaval.behaviours(tmp + '/b'):
            b = [(ACT.get(a, a), p, st) for a, p, st in b]
            key = tuple(a for a, _, _ in b)
            if key in seen or len(b) < 2:
                continue
            seen.add(key)
            out.append(b)
        return out, r
    finally:
        shutil.rmtree(tmp, ignore_errors=True)


def _replay_job(job):
    b, jit, U, framing, pieces, scen, n, run_seed, threaded, work = job
    run = conn_replay.Run(scen, n, U, seed=run_seed, framing=framing, pieces=pieces, jitter=jit, threaded=threaded, work=work)
    run.play(b, compare=not jit and not threaded and work is None)
    evs = run.finish()
    trace = {'mode': 'tunnel' if scen == 'tunnel' else 'http', 'ev': evs, 'exec': 'threaded' if threaded else 'threadless'}
    if work:
        trace['work'] = work
    info = {'scen': scen, 'U': U, 'framing': run.framing if scen == 'http' else None, 'pieces': pieces, 'jitter': jit,
            'mode': 'threaded' if threaded else 'threadless', 'work': work or 'HttpProtocolHandler',
            'schedule': [a for a, _, _ in b][1:], 'consts': n, 'run_seed': run.seed,
            'client_got': len(run.c.got), 'client_eof': run.c.eof_seen, 'loop_alive': run.sim.alive}
    if not run.sim.alive:
        info['loop_error'] = repr(run.sim.loop_error)
    return trace, info, (dict(run.drift) if run.drift is not None else None)


def replay_all(behs, scen, c, units, seed, framings=('cl',), jitter=True, threaded=False, work=None):
    """Run every behaviour on the real stack (in worker processes).  -> (traces for TraceConn, drift list, run infos)"""
    from harness.common import pmap, Hung, MachineryError as ME
    rnd = random.Random(seed)
    traces, drifts, infos = [], [], []
    n = {'N': c['N'], 'CAP': c['CAP'], 'MAXSEND': c['MAXSEND'], 'RECV': c['RECV'], 'OWN': c['OWN']}
    todo = [(b, False) for b in behs] + ([(b, True) for b in behs] if jitter else [])
    if threaded:
        todo = [(b, False) for b in behs]
    jobs = []
    for k, (b, jit) in enumerate(todo):
        U = units[k % len(units)]
        framing = framings[(k // len(units)) % len(framings)]
        pieces = len(b[0][2]['cbuf']) if scen == 'reject' else 1
        jobs.append((b, jit, U, framing, pieces, scen, n, rnd.randrange(1 << 30), threaded, work))
    for job, res in zip(jobs, pmap(_replay_job, jobs, chunksize=4, watchdog=600)):
        if isinstance(res, Hung):
            raise ME('replay of schedule %s (%s, unit %d) was still running after 600 s, in %s' % (
                [a for a, _, _ in job[0]][1:], scen, job[2], [ln.strip() for ln in res.where.splitlines() if 'File' in ln][-2:]))
        trace, info, drift = res
        tid = len(traces) + 1
        trace['id'] = info['id'] = tid
        traces.append(trace)
        infos.append(info)
        if drift is not None:
            drift['id'] = tid
            drifts.append(drift)
    return traces, drifts, infos


def validate(chk, traces, name):
    if not traces:
        return []
    results, rej = tlc.run_sharded('TraceConn', 'TraceConn.cfg', traces, shards=16, timeout=900)
    m = tlc.Merged(results)
    chk.add_tlc(name, m)
    if m.status == 'failed':
        raise MachineryError(name + ': ' + m.brief())
    chk.traces(len(traces))
    out = []
    for tid, rest in rej:
        idx, clause = rest.split('|', 1)
        out.append((tid, int(idx), clause))
    return out


def classify(clause, trace, idx):
    """Abstract signature of a rejection, for matching against known_findings.json."""
    evs = trace['ev'][:idx]
    sig = {'clause': clause.split(' (')[0], 'mode': trace['mode']}
    if trace.get('exec') == 'threaded':
        sig['exec'] = 'threaded'
    if trace.get('work'):
        sig['work'] = trace['work']
    last_send_u = [e for e in evs if e['e'] == 'send' and e['s'] == 'u']
    sig['upstream_write_error_before'] = bool(last_send_u and last_send_u[-1]['res'] == 'err')
    ceof = any(e['e'] == 'recv' and e['s'] == 'c' and e['res'] in ('eof', 'err') for e in evs) or \
        any(e['e'] == 'send' and e['s'] == 'c' and e['res'] == 'err' for e in evs)
    sig['client_ended_before'] = ceof
    return sig
