"""C01 - relayed byte streams arrive exactly once, in order, unmodified.

(S) spec/ConnTick.tla  design model of the established exchange (tick level), invariants IntegrityUC/CU, Prefix*,
                       NoDropTo*; spec/Conn.tla syscall-level statement of what C01/C07 allow, with named clauses.
(M) TLC exhaustive on ConnTick (as built with the named excuses F12/F20, and the intended design FIX = TRUE).
(G) tlc -simulate on ConnTick.GenSpec -> environment schedules.
(R) replay on the REAL LocalFdExecutor + HttpProtocolHandler + HttpProxyPlugin (SimNet), tick-level state comparison.
(V) TraceConn: every recorded syscall trace judged by TLC; clauses starting 'C01' belong to this property.
"""
import random

from checks import conn_common as cc
from harness.common import main


def _sum(b):
    return sum((i % 251 + 1) * x for i, x in enumerate(b)) % 1000003


def realnet_relay(chk, quick):
    """C01 on kernel sockets: REAL proxy processes in the three execution modes.  Tunnel: both peers send a few MiB in odd-sized
    pieces at the same time while reading at their own pace; HTTP: a chunked response of a few MiB.  What one side sent is what the
    other side must have received (judged by TraceFlush: length, position-weighted checksum, end-of-stream)."""
    import random
    import socket
    import threading
    import time
    from harness import realnet, tlc
    from harness.common import MachineryError
    n = (1 << 20) * (2 if quick else 5)
    A = random.Random(11).randbytes(n)          # client -> origin
    B = random.Random(12).randbytes(n + 12345)  # origin -> client
    chunked = b'HTTP/1.1 200 OK\r\nTransfer-Encoding: chunked\r\nConnection: close\r\n\r\n' + b''.join(
        b'%x;e=1\r\n' % len(B[i:i + 50021]) + B[i:i + 50021] + b'\r\n' for i in range(0, len(B), 50021)) + b'0\r\nX-T: 1\r\n\r\n'

    class Duplex(realnet.Origin):
        """Tunnel peer: sends B in 4999-byte pieces while receiving; closes once it has received len(A) bytes and sent everything."""
        def _serve(self, c, rec, idx):
            try:
                c.settimeout(30)

                def pump():
                    for i in range(0, len(B), 4999):
                        c.sendall(B[i:i + 4999])
                t = threading.Thread(target=pump, daemon=True)
                t.start()
                while len(rec['got']) < len(A):
                    d = c.recv(30011)
                    if not d:
                        break
                    rec['got'] += d
                t.join(60)
            except Exception as e:     # noqa
                rec['err'] = repr(e)[:100]
            finally:
                c.close()

    class Chunked(realnet.Origin):
        def _serve(self, c, rec, idx):
            try:
                c.settimeout(30)
                while b'\r\n\r\n' not in rec['got']:
                    d = c.recv(65536)
                    if not d:
                        return
                    rec['got'] += d
                for i in range(0, len(chunked), 70001):
                    c.sendall(chunked[i:i + 70001])
            except Exception as e:     # noqa
                rec['err'] = repr(e)[:100]
            finally:
                c.close()
    duplex, ch = Duplex(b'D'), Chunked(b'C')
    cases, descs = [], {}

    def tunnel_client(port, nap):
        s = socket.create_connection(('127.0.0.1', port), timeout=10)
        got, eof = bytearray(), False
        try:
            s.sendall(b'CONNECT 127.0.0.1:%d HTTP/1.1\r\nHost: 127.0.0.1:%d\r\n\r\n' % (duplex.port, duplex.port))
            head = b''
            while b'\r\n\r\n' not in head:
                d = s.recv(1)
                if not d:
                    return head, False, b''
                head += d

            def pump():
                try:
                    for i in range(0, len(A), 7919):
                        s.sendall(A[i:i + 7919])
                except OSError:
                    pass
            t = threading.Thread(target=pump, daemon=True)
            t.start()
            s.settimeout(30)
            while True:
                try:
                    d = s.recv(20011)
                except (socket.timeout, OSError):
                    break
                if not d:
                    eof = True
                    break
                got += d
                if nap:
                    time.sleep(nap)
            t.join(30)
        finally:
            s.close()
        return head, eof, bytes(got)

    def http_client(port, nap):
        s = socket.create_connection(('127.0.0.1', port), timeout=10)
        got, eof = bytearray(), False
        try:
            s.sendall(b'GET http://127.0.0.1:%d/c HTTP/1.1\r\nHost: 127.0.0.1:%d\r\n\r\n' % (ch.port, ch.port))
            s.settimeout(30)
            while True:
                try:
                    d = s.recv(20011)
                except (socket.timeout, OSError):
                    break
                if not d:
                    eof = True
                    break
                got += d
                if nap:
                    time.sleep(nap)
        finally:
            s.close()
        return eof, bytes(got)

    def add(mode, what, who, exp, obs, eof):
        cid = len(cases) + 1
        cases.append({'id': cid, 'prop': 'C01', 'who': who, 'explen': len(exp), 'expsum': _sum(exp), 'gotlen': len(obs), 'gotsum': _sum(obs),
                      'eof': eof, 'wait_ms': 0, 'limit_ms': 1})
        descs[cid] = {'mode': mode, 'exchange': what, 'receiver': who, 'bytes_expected': len(exp), 'bytes_received': len(obs), 'eof': eof}
    try:
        for mode in ('threaded', 'local', 'remote'):
            px = realnet.ProxyProc(mode, extra=['--timeout', '30'])
            try:
                for pace, nap in (('fast', 0.0), ('slow', 0.003)):
                    k0 = len(duplex.transcript())
                    head, eof, got = tunnel_client(px.port, nap)
                    time.sleep(0.2)
                    recs = duplex.transcript()[k0:]
                    ogot = recs[0]['got'] if recs else b''
                    if not head.startswith(b'HTTP/1.1 200'):
                        raise MachineryError('CONNECT through the %s proxy was not acknowledged: %r' % (mode, head[:60]))
                    add(mode, 'tunnel, %s client' % pace, 'client', B, got, eof)
                    add(mode, 'tunnel, %s client' % pace, 'origin', A, ogot, True)
                    eof, got = http_client(px.port, nap)
                    add(mode, 'chunked response, %s client' % pace, 'client', chunked, got, eof)
            finally:
                px.stop()
    finally:
        duplex.stop()
        ch.stop()
    results, rej = tlc.run_sharded('TraceFlush', 'TraceFlush.cfg', cases, shards=4, timeout=300)
    m = tlc.Merged(results)
    chk.add_tlc('TraceFlush (%d real relays: 3 modes x tunnel both ways / chunked response x client paces)' % len(cases), m)
    if m.status == 'failed':
        raise MachineryError('TraceFlush: ' + m.brief())
    chk.traces(len(cases))
    for cid, clause in rej:
        d = descs[cid]
        chk.violation({'part': 'realnet', 'mode': d['mode'], 'exchange': d['exchange'].split(',')[0], 'receiver': d['receiver']},
                      'kernel sockets, %s mode, %s: %s' % (d['mode'], d['exchange'], clause), d)
    chk.cov['realnet_relays'] = len(cases)
    if cases:
        chk.sample({'part': 'kernel sockets', 'case': descs[1]})


def run(chk):
    quick = chk.tier == 'quick'
    seed = chk.seed
    plan = [
        # scen,   N, CAP, MAXSEND, RECV, units,                      framings
        ('tunnel', 3, 2, 1, 2, [1, 7, 4096, 70000], ('cl',)),
        ('http', 4, 2, 2, 1, [32, 61, 4096, 70000], ('cl', 'chunked', 'close', 'interim', 'chunked-ext', 'seq')),
    ]
    if not quick:
        plan += [('tunnel', 4, 3, 2, 2, [1, 13, 65536, 262144], ('cl',)),
                 ('tunnel', 3, 1, 1, 1, [1, 4096], ('cl',)),
                 ('http', 5, 3, 2, 2, [40, 4096, 262144], ('cl', 'chunked', 'close', 'interim', 'chunked-ext', 'seq'))]
    num = 150 if quick else 700
    drift_total = 0
    for scen, N, CAP, MS, RV, units, framings in plan:
        cc.model_check(chk, scen, N, CAP, MS, RV, fix=False)
        cc.model_check(chk, scen, N, CAP, MS, RV, fix=True)
        c = cc.consts(scen, N, CAP, MS, RV)
        behs = []
        for late in (0, 8, 16, 24):
            b, r = cc.generate(scen, c, num, 50, seed=seed * 101 + late + N, late=late)
            chk.add_tlc('ConnTick.GenSpec -simulate %s late=%d' % (scen, late), r)
            behs += b
        n = {'N': N, 'CAP': CAP, 'MAXSEND': MS, 'RECV': RV, 'OWN': 3}
        traces, drifts, infos = cc.replay_all(behs, scen, n, units, seed=seed + 17, framings=framings)
        # the same schedules with one handler per connection driven as --threaded mode does (own selector, run() loop iteration per
        # tick, shutdown() flushing with the blocking _flush()); judged by the same syscall-level clauses, no tick-level comparison
        t2, _d2, i2 = cc.replay_all(behs[::3], scen, n, units, seed=seed + 17 + 1, framings=framings, threaded=True)
        for t, i in zip(t2, i2):
            t['id'] = i['id'] = len(traces) + 1
            traces.append(t)
            infos.append(i)
        if scen in ('tunnel', 'http'):
            # proxy chaining: the relay runs through ProxyPoolPlugin / TcpUpstreamConnectionHandler (the upstream is another proxy)
            t4, _d4, i4 = cc.replay_all(behs[1::3], scen, n, units, seed=seed + 17 + 3, framings=framings, work='proxy-pool')
            for t, i in zip(t4, i4):
                t['id'] = i['id'] = len(traces) + 1
                traces.append(t)
                infos.append(i)
        if scen == 'tunnel':
            # the same schedules through the other relay implementation of the code base: a work class built on
            # BaseTcpTunnelHandler / BaseTcpServerHandler (examples/https_connect_tunnel.py), on the same executor
            t3, _d3, i3 = cc.replay_all(behs[::2], scen, n, [u for u in units if u * RV >= 64] or [64], seed=seed + 17 + 2, work='example-tunnel')
            for t, i in zip(t3, i3):
                t['id'] = i['id'] = len(traces) + 1
                traces.append(t)
                infos.append(i)
        drift_total += len(drifts)
        for d in drifts[:5]:
            print('MODEL-DRIFT (not a violation): ConnTick and the code disagree at step %(step)s (%(action)s) on %(var)s' % d, d,
                  scen, ' '.join(infos[d['id'] - 1]['schedule']), 'unit', infos[d['id'] - 1]['U'])
        for i in infos:
            if not i['loop_alive']:
                chk.notes.append('executor loop died during %s schedule %s: %s (reported under C05)' % (scen, i['schedule'], i.get('loop_error')))
        rej = cc.validate(chk, traces, 'TraceConn %s N=%d CAP=%d' % (scen, N, CAP))
        for tid, idx, clause in rej:
            if clause.startswith('machinery'):
                from harness.common import MachineryError
                raise MachineryError('trace %d rejected by a machinery clause: %s (%s)' % (tid, clause, infos[tid - 1]))
            relay_truncated = clause.startswith('C07 client connection closed while queued output was not fully sent')
            if not (clause.startswith('C01') or relay_truncated):
                continue                      # the other C07 clauses are judged by check C07 on the same scenario family
            if relay_truncated:
                # in the tunnel / http scenarios everything queued for the client is relayed upstream data:
                # closing before it is sent loses bytes of the relayed stream
                clause = 'C01 relayed bytes queued for the client were dropped: ' + clause
            sig = cc.classify(clause, traces[tid - 1], idx)
            info = infos[tid - 1]
            chk.violation(sig, '%s schedule %s (unit %d bytes%s): %s' % (
                scen + ('/threaded' if info.get('mode') == 'threaded' else '') + ('/BaseTcpTunnelHandler' if info.get('work') == 'example-tunnel' else '/ProxyPoolPlugin' if info.get('work') == 'proxy-pool' else ''), ' '.join(info['schedule']), info['U'], ', ' + info['framing'] if info['framing'] else '', clause),
                {'info': info, 'rejected_event_index': idx, 'events': traces[tid - 1]['ev'][max(0, idx - 12):idx + 1]})
        for info, tr in list(zip(infos, traces))[:2]:
            chk.sample({'scenario': info['scen'], 'unit_bytes': info['U'], 'schedule': info['schedule'], 'events': len(tr['ev']),
                        'first_events': tr['ev'][:8]})
    chk.cov['model_drift_runs'] = drift_total
    realnet_relay(chk, quick)
    chk.assume('peers act between loop iterations only (reduction argument, DESIGN.md 2.3)',
               'SimNet socket semantics (harness/simnet.py) stand for the kernel; probed against loopback TCP on this kernel by tools/kernel_probe.py (close / reset / half-close outcomes)',
               'delivery towards the upstream is demanded only while that upstream is fully open; towards the client while it can still receive; client half-close cases are unconstrained (DESIGN.md 4.6)',
               'TLS-wrapped relays are not exercised on SimNet',
               'kernel-socket part: loopback TCP, 2 (quick) / 5 MiB per direction, origins close after their last byte')


if __name__ == '__main__':
    main(run, 'C01')
