"""C15 - HTTP message and chunked codecs round-trip and agree with a reference.

(S) spec/Http.tla reference codec; spec/CodecLaws.tla its own laws, checked exhaustively by TLC (Dechunk o Enchunk = id
    for every body <= L over a chunk-syntax alphabet and every chunk size <= S, message laws with trailing bytes).
(R) recorded executions of the REAL builders / parser / chunk codec:
      parse    HttpParser / ChunkParser on every message of the grammar corpus (both parser types)
      build    build_http_request / build_http_response on an enumerated argument space
      rebuild  HttpParser.build / build_response of every corpus message
      chunks   ChunkParser.to_chunks + ChunkParser on bodies x chunk sizes 1..8 (and larger)
      update   update_body with gzip / identity / other content-encodings, Content-Length and chunked framing
(V) spec/TraceCodec.tla: TLC judges every case against the reference; a rejection names the clause.
"""
import gzip
import itertools
import random

from harness import tlc, httpgen
from harness.common import main, MachineryError


def b2l(b):
    return list(b) if b else []


def view_of(p, exc=''):
    if p is None:
        return {'complete': False, 'exc': exc, 'method': [], 'host': [], 'port': -1, 'path': [], 'version': [], 'code': [],
                'reason': [], 'hdrs': [], 'body': [], 'rest': []}
    hdrs = sorted((v[0], v[1]) for v in (p.headers or {}).values())
    return {'complete': bool(p.is_complete), 'exc': exc, 'method': b2l(p.method), 'host': b2l(p.host),
            'port': p.port if isinstance(p.port, int) else -1, 'path': b2l(p.path), 'version': b2l(p.version), 'code': b2l(p.code),
            'reason': b2l(p.reason), 'hdrs': [[b2l(a), b2l(b)] for a, b in hdrs], 'body': b2l(p.body),
            'rest': b2l(bytes(p.buffer)) if p.buffer is not None else []}


def py_dechunk(raw):
    """Concretiser-side extraction of a chunked body (its result is cross-checked by the reference in TLC)."""
    out, pos = b'', 0
    while True:
        e = raw.index(b'\r\n', pos)
        n = int(raw[pos:e].split(b';')[0].strip(), 16)
        if n == 0:
            return out
        out += raw[e + 2:e + 2 + n]
        pos = e + 2 + n + 2


def extract(out):
    """-> (encoded body as framed, gzip advertised?, chunked?) of a built message."""
    head, _, tail = out.partition(b'\r\n\r\n')
    low = head.lower()
    chunked = any(l.split(b':', 1)[0].strip() == b'transfer-encoding' and l.split(b':', 1)[1].strip() == b'chunked'
                  for l in low.split(b'\r\n')[1:] if b':' in l)
    gz = any(l.split(b':', 1)[0].strip() == b'content-encoding' and l.split(b':', 1)[1].strip() == b'gzip'
             for l in low.split(b'\r\n')[1:] if b':' in l)
    cl = [l.split(b':', 1)[1].strip() for l in low.split(b'\r\n')[1:] if b':' in l and l.split(b':', 1)[0].strip() == b'content-length']
    if chunked:
        try:
            body = py_dechunk(tail)
        except Exception:
            body = b''
    elif cl and cl[-1].isdigit() and int(cl[-1]) > 0:
        body = tail[:int(cl[-1])]
    elif cl:
        body = b''
    else:
        body = tail
    return body, gz, chunked


def gen_cases(chk, quick):
    from proxy.http.parser import HttpParser, httpParserTypes, ChunkParser, chunkParserStates
    from proxy.common.utils import build_http_request, build_http_response
    rnd = random.Random(chk.seed * 13 + 5)
    cases = []

    def add(c):
        c['id'] = len(cases) + 1
        c['pid'] = 'C15'
        cases.append(c)

    corpus = httpgen.corpus(chk.seed * 11 + 3, 1 if quick else 4)
    # ---- parse: implementation parser = reference, one piece ------------------------------------
    for raw, desc in corpus:
        kind = desc['kind']
        try:
            if kind == 'chunk':
                p = ChunkParser()
                rest = bytes(p.parse(memoryview(raw)))
                v = view_of(None)
                v.update({'complete': p.state == chunkParserStates.COMPLETE, 'body': b2l(p.body), 'rest': b2l(rest)})
            else:
                p = HttpParser(httpParserTypes.REQUEST_PARSER if kind == 'req' else httpParserTypes.RESPONSE_PARSER)
                p.parse(memoryview(raw))
                v = view_of(p)
        except Exception as e:     # noqa
            v = view_of(None, type(e).__name__)
        add({'op': 'parse', 'kind': kind, 'bytes': list(raw), 'view': v, 'desc': desc})
    # ---- rebuild --------------------------------------------------------------------------------
    for raw, desc in corpus:
        if desc['kind'] == 'chunk' or desc.get('trailing'):
            continue
        out, exc = b'', ''
        try:
            if desc['kind'] == 'req':
                out = HttpParser.request(raw).build(disable_headers=[], for_proxy=desc['form'] == 'authority')
            else:
                out = HttpParser.response(raw).build_response()
        except Exception as e:     # noqa
            exc = type(e).__name__
        add({'op': 'rebuild', 'kind': desc['kind'], 'bytes': list(raw), 'out': list(out), 'exc': exc, 'desc': desc})
    # ---- build ----------------------------------------------------------------------------------
    bodies = [None, b'', b'x', bytes(range(256)), b'\r\n\r\n0\r\n\r\n', b'a' * 1000]
    hdrsets = [[], [(b'Host', b'h.example')], [(b'X-A', b'v:w'), (b'accept', b'*/*'), (b'HOST', b'h:8080')],
               [(b'content-type', b'text/plain; charset=utf-8'), (b'X-Empty', b'')], [(b'User-Agent', b'me/1.0')]]
    targets = [b'/', b'/a?b=c', b'http://h.example/x', b'h.example:443']
    for method, target, version, hs, body, te, cc in itertools.product(
            [b'GET', b'POST', b'CONNECT', b'OPTIONS'], targets, [b'HTTP/1.1', b'HTTP/1.0'], hdrsets, bodies, (False, True), (False, True)):
        if (method == b'CONNECT') != (target == b'h.example:443'):
            continue
        if quick and rnd.random() > 0.12:
            continue
        hs = list(hs)
        wire_body = body
        if te:
            if body is None:
                continue
            hs.append((rnd.choice([b'Transfer-Encoding', b'transfer-encoding']), b'chunked'))
            wire_body = ChunkParser.to_chunks(body, rnd.choice([1, 7, 1024]) if len(body) < 300 else 128)
        no_ua = rnd.random() < .5
        out = build_http_request(method, target, version, headers=dict(hs), body=wire_body, conn_close=cc, no_ua=no_ua)
        try:
            v = view_of(HttpParser.request(out))
        except Exception as e:     # noqa
            v = view_of(None, type(e).__name__)
        add({'op': 'build', 'kind': 'req', 'x': {'parts': [list(method), list(target), list(version)],
                                                  'hdrs': [[list(a), list(b)] for a, b in hs], 'body': b2l(body)},
             'out': list(out), 'view': v, 'mayadd': [list(b'content-length'), list(b'user-agent'), list(b'connection')],
             'desc': {'builder': 'build_http_request', 'te': te, 'conn_close': cc, 'no_ua': no_ua, 'body': None if body is None else len(body)}})
    for code, reason, version, hs, body, te, cc in itertools.product(
            [200, 204, 404, 599], [b'OK', None, b'Not  Found here'], [b'HTTP/1.1', b'HTTP/1.0'], hdrsets, bodies, (False, True), (False, True)):
        if quick and rnd.random() > 0.12:
            continue
        hs = list(hs)
        wire_body = body
        if te:
            if body is None:
                continue
            hs.append((rnd.choice([b'Transfer-Encoding', b'transfer-encoding', b'TRANSFER-ENCODING']), b'chunked'))
            wire_body = ChunkParser.to_chunks(body, rnd.choice([1, 7, 1024]) if len(body) < 300 else 128)
        out = build_http_response(code, version, reason, headers=dict(hs), body=wire_body, conn_close=cc)
        try:
            v = view_of(HttpParser.response(out))
        except Exception as e:     # noqa
            v = view_of(None, type(e).__name__)
        parts = [list(version), list(b'%d' % code)] + ([list(reason)] if reason else [])
        add({'op': 'build', 'kind': 'res', 'x': {'parts': parts, 'hdrs': [[list(a), list(b)] for a, b in hs], 'body': b2l(body)},
             'out': list(out), 'view': v, 'mayadd': [list(b'content-length'), list(b'connection')],
             'desc': {'builder': 'build_http_response', 'te': te, 'conn_close': cc, 'body': None if body is None else len(body)}})
    # ---- chunks ---------------------------------------------------------------------------------
    sizes = list(range(0, 20)) + [31, 32, 33, 48] if not quick else [0, 1, 2, 3, 5, 8, 9, 16, 17, 33]
    for n in sizes:
        for k in range(1, 9):
            body = httpgen.body_bytes(rnd, n)
            add(chunk_case(body, k))
    for n, k in [(300, 64), (4096, 1024), (5000, 4096), (70000, 16384)] + ([] if quick else [(200000, 65536), (1000, 100)]):
        add(chunk_case(httpgen.body_bytes(rnd, n), k))
    add(chunk_case(httpgen.body_bytes(rnd, 100), None))
    # ---- update_body ----------------------------------------------------------------------------
    for kind, enc, framing, n in itertools.product(['req', 'res'], [None, b'gzip', b'identity', b'br', b'GZIP'], ['cl', 'chunked'],
                                                   [0, 1, 19, 21, 500]):
        newbody = httpgen.body_bytes(rnd, n)
        hs = [(b'Host', b'h')] + ([(rnd.choice([b'Content-Encoding', b'content-encoding']), enc)] if enc else [])
        old = b'old-body'
        if framing == 'cl':
            hs.append((b'Content-Length', b'%d' % len(old)))
            payload = old
        else:
            hs.append((b'Transfer-Encoding', b'chunked'))
            payload = ChunkParser.to_chunks(old)
        line = b'POST http://h/x HTTP/1.1\r\n' if kind == 'req' else b'HTTP/1.1 200 OK\r\n'
        raw = line + b''.join(a + b': ' + b + b'\r\n' for a, b in hs) + b'\r\n' + payload
        out, exc = b'', ''
        try:
            p = HttpParser.request(raw) if kind == 'req' else HttpParser.response(raw)
            p.update_body(newbody, b'text/plain')
            out = p.build(disable_headers=[]) if kind == 'req' else p.build_response()
        except Exception as e:     # noqa
            exc = type(e).__name__
        encbody, gz, _ch = extract(out) if out else (b'', False, False)
        try:
            plain = gzip.decompress(encbody) if gz else encbody
        except Exception:
            plain = b'<undecodable>'
        add({'op': 'update', 'kind': kind, 'out': list(out), 'exc': exc, 'newbody': list(newbody), 'encbody': list(encbody), 'gz': gz,
             'plain': list(plain), 'chunked': framing == 'chunked',
             'desc': {'content_encoding': enc.decode() if enc else None, 'framing': framing, 'n': n}})
    return cases


def chunk_case(body, k):
    from proxy.http.parser import ChunkParser, chunkParserStates
    from proxy.common.constants import DEFAULT_BUFFER_SIZE
    enc = ChunkParser.to_chunks(body, k) if k is not None else ChunkParser.to_chunks(body)
    p = ChunkParser()
    rest = bytes(p.parse(memoryview(enc)))
    # the same stream delivered in pieces (cut positions from the body content, deterministic)
    q = ChunkParser()
    step = 1 + (sum(body[:8]) + len(body)) % 7
    exc = ''
    try:
        for i in range(0, len(enc), step):
            q.parse(memoryview(enc[i:i + step]))
    except Exception as e:     # noqa
        exc = type(e).__name__
    if exc or q.state != chunkParserStates.COMPLETE or q.body != p.body:
        p = q                       # report the deviating execution
        rest = b''
    return {'op': 'chunks', 'exc': exc, 'body': list(body), 'k': k if k is not None else DEFAULT_BUFFER_SIZE, 'enc': list(enc), 'dec': list(p.body),
            'decdone': p.state == chunkParserStates.COMPLETE, 'decrest': list(rest), 'desc': {'n': len(body), 'k': k}}


def run(chk):
    quick = chk.tier == 'quick'
    r = tlc.run('CodecLaws', 'CodecLaws.cfg', workers=16, timeout=900, cfg_text=(
        'SPECIFICATION Spec\nCONSTANTS\n  L = %d\n  S = %d\nINVARIANT ChunkLaw\nINVARIANT MsgLawCL\nINVARIANT MsgLawTE\nINVARIANT PrefixLaw\n'
        'CHECK_DEADLOCK FALSE\n' % ((4, 3) if quick else (6, 4))))
    chk.add_tlc('CodecLaws (reference codec laws, exhaustive)', r, exhaustive=True)
    chk.require_ok('CodecLaws', r)
    cases = gen_cases(chk, quick)
    descs = {c['id']: (c['op'], c.pop('desc')) for c in cases}
    results, rej = tlc.run_sharded('TraceCodec', 'TraceCodec.cfg', cases, shards=16, timeout=1500, heap='6g')
    m = tlc.Merged(results)
    chk.add_tlc('TraceCodec (%d recorded executions)' % len(cases), m)
    if m.status == 'failed':
        raise MachineryError('TraceCodec: ' + m.brief())
    chk.traces(len(cases))
    ops = {}
    for op, _ in descs.values():
        ops[op] = ops.get(op, 0) + 1
    chk.cov['cases_by_operation'] = ops
    byid = {c['id']: c for c in cases}
    for cid, clause in rej:
        op, d = descs[cid]
        if clause.startswith('machinery'):
            raise MachineryError('case %d (%s %s): %s' % (cid, op, d, clause))
        c = byid[cid]
        sig = {'clause': clause, 'op': op}
        show = {k: (bytes(v).decode('latin1')[:600] if isinstance(v, list) and v and isinstance(v[0], int) else v)
                for k, v in c.items() if k in ('bytes', 'out', 'enc', 'k', 'kind')}
        chk.violation(sig, '%s %s: %s' % (op, d, clause), {'case': d, 'data': show})
    for c in cases[:2] + [x for x in cases if x['op'] == 'update'][:1] + [x for x in cases if x['op'] == 'build'][:1]:
        chk.sample({'op': c['op'], 'case': descs[c['id']][1],
                    'bytes': bytes(c.get('bytes') or c.get('out') or c.get('enc') or []).decode('latin1')[:200]})
    chk.assume('gzip inflation is done by CPython zlib in the harness (trusted); its extraction of the encoded body is cross-checked by the reference parser in TLC',
               'header sets have case-insensitively unique names (as the property quantifies)',
               'bounded: bodies up to 200 kB, chunk sizes 1..8 on bodies <= 48 bytes and larger sizes on larger bodies')


if __name__ == '__main__':
    main(run, 'C15')
