#!/bin/sh
# tools/recheck_seed.sh <seed>: on a scratch worktree of /repo's CURRENT HEAD: demo without the change (expect 0), with it (expect != 0)
sd=/verif/seeded/$1; wt=/tmp/wt-recheck-$1
git -C /repo worktree add --detach $wt HEAD >/dev/null 2>&1 || exit 2
cp $sd/demo.py $wt/demo_x.py
cd $wt; timeout 180 /venv/bin/python demo_x.py >/dev/null 2>&1; a=$?
if git apply $sd/patch.diff 2>/dev/null; then timeout 180 /venv/bin/python demo_x.py >/dev/null 2>&1; b=$?; else b=noapply; fi
echo "seed=$1 demo_without=$a demo_with=$b"
cd /; git -C /repo worktree remove --force $wt
