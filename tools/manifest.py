#!/usr/bin/env python3
"""Regenerate MANIFEST.json from tools/manifest_src.py (single place where checks are registered) and validate it."""
import json, os, sys
sys.path.insert(0, os.path.dirname(__file__))
import manifest_src as S
props = [json.loads(l)['id'] for l in open('/verif/properties.jsonl')]
checks = []
for pid in props:
    c = S.CHECKS.get(pid)
    if not c:
        continue
    checks.append({
        'property_id': pid,
        'quick_cmd': './check %s --tier quick' % pid,
        'thorough_cmd': './check %s --tier thorough' % pid,
        'evidence_file': '/verif/evidence/%s.json' % pid,
        'replay_cmd_template': './check %s --replay {path}' % pid,
        'engine': 'tlc',
        'level_claimed': {'category': c.get('category', 'model_checking'), 'text': c['text'], 'design_ref': c['design_ref']},
        'level_note': c['note'],
        'technique': c['technique'],
    })
na = [{'property_id': p, 'reason': S.NOT_APPLICABLE.get(p, 'check not built yet (work in progress, see DESIGN.md section 6)')}
      for p in props if p not in S.CHECKS]
m = {
    'version': 1,
    'setup_cmd': './setup.sh',
    'hooks': S.HOOKS,
    'engines': [{'name': 'tlc', 'path': '/verif/harness/tlc.py', 'serves_properties': [c['property_id'] for c in checks],
                 'kind_free_text': 'TLC 1.8 model checker on the TLA+ specifications in /verif/spec: exhaustive design models, '
                                   'behaviour generation (-simulate / case enumeration) and batch trace validation of executions '
                                   'recorded from the real classes (SimNet / RealNet harness in /verif/harness)'}],
    'checks': checks,
    'notes': S.NOTES,
    'not_applicable': na,
}
json.dump(m, open('/verif/MANIFEST.json', 'w'), indent=1)
try:
    import jsonschema
    jsonschema.validate(m, json.load(open('/root/.vp/MANIFEST.schema.json')))
    print('MANIFEST.json valid: %d checks, %d not_applicable' % (len(checks), len(na)))
except ImportError:
    print('jsonschema not importable here; written without validation')
