#!/bin/sh
# tools/seed_matrix.sh [tier]: every seed under seeded/ against every check its meta.json names in detected_by.
# One line per pair; "MISSED" when the check did not report a violation with the seed applied.
# Works on the tree named by VERIF_REPO (default /repo) and in the copy of /verif this script lives in, so that
#   vp run --with-repo -- sh -c 'VERIF_REPO=$VP_RUN_REPO tools/seed_matrix.sh'
# runs the whole matrix on snapshots without touching /repo or the committed evidence.
tier=${1:-quick}
here=$(cd "$(dirname "$0")/.." && pwd)
repo=${VERIF_REPO:-/repo}
cd "$here"
for d in seeded/*/; do
  s=$(basename $d)
  [ -f $d/meta.json ] || continue
  git -C $repo apply --check $here/$d/patch.diff 2>/dev/null || { echo "$s -- patch does not apply (superseded)"; continue; }
  for c in $(python3 -c "import json;print(' '.join(json.load(open('$d/meta.json')).get('detected_by',[])))"); do
    git -C $repo apply $here/$d/patch.diff
    VERIF_REPO=$repo ./check $c --tier $tier > /tmp/matrix_${s}_$c.log 2>&1; rc=$?
    git -C $repo checkout -- .
    n=$(grep -c "^VIOLATION" /tmp/matrix_${s}_$c.log)
    if [ $rc -eq 1 ]; then echo "$s $c detected ($n violation lines)"; else echo "$s $c MISSED (exit=$rc)"; fi
    rm -f /tmp/matrix_${s}_$c.log
  done
done
echo "matrix done"
