#!/bin/sh
# tools/seed_matrix.sh [tier]: every seed under /verif/seeded against every check its meta.json names in detected_by.
# One line per pair; "MISSED" when the check did not report a violation with the seed applied.
tier=${1:-quick}
cd /verif
for d in seeded/*/; do
  s=$(basename $d)
  [ -f $d/meta.json ] || continue
  git -C /repo apply --check /verif/$d/patch.diff 2>/dev/null || { echo "$s -- patch does not apply (superseded)"; continue; }
  for c in $(python3 -c "import json;print(' '.join(json.load(open('$d/meta.json')).get('detected_by',[])))"); do
    out=$(tools/try_seed.sh $s $c $tier 2>&1 | head -1)
    case "$out" in *"exit=1"*) echo "$s $c detected";; *) echo "$s $c MISSED ($out)";; esac
  done
done
