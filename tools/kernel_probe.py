#!/usr/bin/env python3
"""Compare the socket semantics SimNet assumes (harness/simnet.py) with loopback TCP on this kernel, for the situations the
connection checks depend on: a peer that closed / reset, with and without data sent before.  Prints one line per scenario and
exits 1 on a mismatch.  Run by hand (tools/kernel_probe.py); not part of a registered check: it judges the harness, not proxy.py."""
import os
import socket
import struct
import sys
import time

sys.path.insert(0, os.path.dirname(os.path.dirname(os.path.abspath(__file__))))
from harness import simnet  # noqa


def real_pair():
    srv = socket.socket()
    srv.bind(('127.0.0.1', 0))
    srv.listen(1)
    a = socket.create_connection(srv.getsockname())
    b, _ = srv.accept()
    srv.close()
    a.setblocking(False)
    return a, b


def sim_pair():
    w = simnet.World()
    a, b = w.pair('a', 'B')
    return a, b


def op(f):
    try:
        r = f()
        return 'data' if r and not isinstance(r, int) else 'eof' if r == b'' else 'sent'
    except BlockingIOError:
        return 'again'
    except OSError as e:
        return type(e).__name__


def rst_real(b):
    b.setsockopt(socket.SOL_SOCKET, socket.SO_LINGER, struct.pack('ii', 1, 0))
    b.close()


SCEN = {
    'reset, then send send recv': (lambda b, real: (rst_real(b) if real else b.reset()), ['send', 'send', 'recv']),
    'reset, then recv recv send': (lambda b, real: (rst_real(b) if real else b.reset()), ['recv', 'recv', 'send']),
    'close, then recv send': (lambda b, real: b.close(), ['recv', 'send_late']),
    'data + close, then recv recv': (lambda b, real: (b.send(b'resp'), b.close()), ['recv', 'recv']),
    'half-close, then recv send': (lambda b, real: b.shutdown(socket.SHUT_WR), ['recv', 'send']),
    'nothing, then recv': (lambda b, real: None, ['recv']),
}
bad = 0
for name, (prep, ops) in SCEN.items():
    out = {}
    for real in (True, False):
        a, b = real_pair() if real else sim_pair()
        prep(b, real)
        if real:
            time.sleep(0.1)
        res = []
        for o in ops:
            if o == 'send_late':        # the kernel accepts one segment before it learns of the close; SimNet refuses at once
                if real:
                    op(lambda: a.send(b'x'))
                    time.sleep(0.1)
                res.append(op(lambda: a.send(b'x')))
            elif o == 'send':
                res.append(op(lambda: a.send(b'x')))
            else:
                res.append(op(lambda: a.recv(10)))
        out[real] = res
    ok = out[True] == out[False]
    bad += not ok
    print('%-34s kernel %-50s simnet %-50s %s' % (name, out[True], out[False], 'MATCH' if ok else 'MISMATCH'))
sys.exit(1 if bad else 0)
