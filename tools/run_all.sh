#!/bin/sh
# tools/run_all.sh [tier]: run every registered check once on /repo as it is; evidence files are rewritten.
cd "$(dirname "$0")/.." || exit 2
tier=${1:-quick}
for id in $(python3 -c "import json; print(' '.join(c['property_id'] for c in json.load(open('MANIFEST.json'))['checks']))"); do
  /usr/bin/time -f "$id %es" ./check $id --tier $tier > /tmp/runall_$id.log 2>&1
  echo "$id exit=$? $(grep -c '^VIOLATION' /tmp/runall_$id.log) violations, $(grep -c '^KNOWN-FINDING' /tmp/runall_$id.log) known; $(tail -1 /tmp/runall_$id.log)"
done
