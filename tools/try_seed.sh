#!/bin/sh
# tools/try_seed.sh <seed-dir-name> <check id> [tier]: apply /verif/seeded/<name>/patch.diff to /repo, run the check, undo.
sd=/verif/seeded/$1; id=$2; tier=${3:-quick}
git -C /repo diff --quiet || { echo "/repo has local changes; refusing"; exit 2; }
git -C /repo apply "$sd/patch.diff" || { echo "patch does not apply"; exit 2; }
cd /verif && ./check $id --tier $tier > /tmp/try_$1_$id.log 2>&1; rc=$?
git -C /repo checkout -- . 
git -C /verif checkout -- evidence/$id.json 2>/dev/null    # the evidence of a seeded run is not evidence about the unchanged tree
echo "seed=$1 check=$id tier=$tier exit=$rc"; grep -c "^VIOLATION" /tmp/try_$1_$id.log | sed 's/^/  VIOLATION lines: /'; grep "^VIOLATION\|^MACHINERY\|^KNOWN" /tmp/try_$1_$id.log | cut -c1-230 | head -4
rm -f /verif/replays/$id-*.json
exit 0
