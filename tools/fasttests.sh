#!/bin/sh
# Stable subset of the repository's suite (everything in BASELINE stable_pass; the always_fail
# network tests are what make the full command take 20 min).  Usage: tools/fasttests.sh [repo-dir]
cd "${1:-/repo}" && exec /venv/bin/python -m pytest -q -p no:cacheprovider --timeout=900 -o addopts="" --doctest-modules \
  --ignore=tests/integration --deselect tests/test_grout.py --deselect tests/http/proxy/test_http2.py \
  --deselect tests/http/test_client.py::TestClient::test_client --deselect tests/http/test_client.py::TestClient::test_http \
  --deselect tests/test_main.py::TestProxyContextManager
