#!/usr/bin/env python3
"""Print the brief for a breakage-seeding sub-agent: property text + its scratch worktree only."""
import json, sys
pid, wt = sys.argv[1], sys.argv[2]
p = [json.loads(l) for l in open('/verif/properties.jsonl') if json.loads(l)['id'] == pid][0]
print(f"""You are helping to evaluate a verification tool by producing a realistic regression in the open-source project proxy.py (abhinavsingh/proxy.py, a pure-Python HTTP/HTTPS forward and reverse proxy and web server).

You have your own scratch git worktree of the project at {wt} . Work ONLY inside {wt} (and /tmp/{pid}-scratch for scratch files if you need any). Never touch /repo or /verif, and do not read anything under /verif.

The property that must be BROKEN by your change:

  Title: {p['title']}
  Statement: {p['statement']}
  Quantified over: {p['quantifier']['text']}

Task: make ONE small, realistic change to the project's source under {wt}/proxy/ (the kind of slip a maintainer could make in a refactor or an "optimisation": an off-by-one, a dropped condition, a reordered step, a state flag not reset, an exception handler that is too broad or too narrow, two cooperating sites that each look fine alone) such that:
  1. the code still imports and the existing test-suite still passes. Run it from inside your worktree with exactly:
       cd {wt} && /venv/bin/python -m pytest -q -p no:cacheprovider --timeout=900 -o addopts="" --doctest-modules --ignore=tests/integration --deselect tests/test_grout.py --deselect tests/http/proxy/test_http2.py --deselect tests/http/test_client.py::TestClient::test_client --deselect tests/http/test_client.py::TestClient::test_http --deselect tests/test_main.py::TestProxyContextManager
     (about 10 s; 221 tests pass on the unchanged tree; run with cwd={wt} so that `import proxy` resolves to {wt}/proxy — check with  cd {wt} && /venv/bin/python -c "import proxy; print(proxy.__file__)" ). Do not edit tests.
  2. the property above no longer holds, BUT only under something specific: a particular interleaving or timing, a partial write / short read, a fault or abort at a particular point, a multi-step sequence of operations, an unusual (yet valid) input, a particular configuration, or the second/third occurrence of something. A change that ordinary use would expose at once (every request fails, the server does not start) is NOT wanted.
  3. you write a demonstration: a self-contained Python script {wt}/demo_{pid}.py (standard library + the project itself only; run as  cd {wt} && /venv/bin/python demo_{pid}.py ) that exits 0 on the ORIGINAL code and exits non-zero (printing what went wrong) WITH your change. It must be deterministic and finish within 60 s. It may use real loopback sockets, threads, the project's classes directly, or mocks — whatever shows the breakage most directly. The machine has no network beyond loopback.

Check both directions yourself: `git -C {wt} stash` / `git -C {wt} stash pop` (or `git -C {wt} diff > /tmp/{pid}-scratch/p.diff; git -C {wt} checkout -- proxy; ...`) to confirm the demo passes without the change and fails with it, and that the test-suite passes with it.

Note that the project as it stands is not perfect; if you notice that the property is ALREADY violated for some input on the unchanged code, do not use that as your change — your change must introduce a NEW way of violating it, and your demo must pass on the unchanged code.

When done, leave the change applied in the worktree (uncommitted), leave demo_{pid}.py in place, and reply with: (a) the unified diff of your change, (b) one paragraph on what exactly is needed for the violation to manifest, (c) the demo's output with and without the change, (d) the test-suite summary line with the change.""")
