#!/bin/sh
# tools/collect_seed.sh <worktree> <property> <seed-id>: confirm a seeded change (demo passes without / fails with,
# suite passes with) and store it under /verif/seeded/<seed-id>/.  Removes the worktree afterwards.
wt=$1; pid=$2; sid=$3; out=/verif/seeded/$sid
mkdir -p $out
git -C $wt diff -- proxy > $out/patch.diff
cp $wt/demo_$pid.py $out/demo.py 2>/dev/null
cd $wt || exit 1
echo "== suite with change"; /verif/tools/fasttests.sh $wt 2>&1 | tail -1 | tee $out/suite_with.txt
echo "== demo with change"; (timeout 120 /venv/bin/python demo_$pid.py > $out/demo_with.txt 2>&1; echo "exit=$?" >> $out/demo_with.txt); tail -3 $out/demo_with.txt
git -C $wt stash -q -- proxy
echo "== demo without change"; (timeout 120 /venv/bin/python demo_$pid.py > $out/demo_without.txt 2>&1; echo "exit=$?" >> $out/demo_without.txt); tail -2 $out/demo_without.txt
git -C $wt stash pop -q
