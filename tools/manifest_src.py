HOOKS = {
    'guard': 'PROXY_PY_VERIF',
    'enable': 'no source hooks in /repo: instrumentation is harness-side wrapping of the socket/selector/clock seams, '
              'active only inside check processes (./check exports PROXY_PY_VERIF=1)',
    'baseline_off_cmd': 'cd /repo && /venv/bin/python -m pytest -ra -q -p no:cacheprovider --timeout=900 --continue-on-collection-errors',
    'source_commits': [],
    'add_only': True,
}
NOTES = ('Every check: TLC decides. Exit 0 held / 1 VIOLATION (an implementation execution rejected by the trace spec) / '
         '2 machinery failure. Known findings: /verif/known_findings.json. Seeded regressions: /verif/seeded/.')
NOT_APPLICABLE = {}
CHECKS = {
    'C16': {
        'text': 'Every case of the enumerated frame space (all 512 flag x opcode x mask combinations at the length thresholds, '
                'every length 0..130, the 65530..65540 band, up to 1 MiB) is executed on the real WebsocketFrame.build/parse '
                'and judged byte for byte by TLC against an RFC 6455 encoder/decoder written in TLA+ (WsCodec.tla); accept '
                'tokens are recomputed by a SHA-1 state machine in TLA+ (Sha1.tla/TraceSha1.tla). Bounded-exhaustive over the '
                'abstract space, sampled payload contents.',
        'design_ref': 'DESIGN.md section 6, C16',
        'note': 'Trusted: TLC, the JSON bridge, the CommunityModules Bitwise operators. Nothing of the implementation is trusted; '
                'SHA-1/base64 are specified in TLA+ and self-checked against the RFC 6455 example.',
        'technique': 'TLA+ reference codec (WsCodec/Sha1) + TLC batch validation of recorded build/parse executions',
    },
}
