HOOKS = {
    'guard': 'PROXY_PY_VERIF',
    'enable': 'no source hooks in /repo: instrumentation is harness-side wrapping of the socket/selector/clock seams, '
              'active only inside check processes (./check exports PROXY_PY_VERIF=1)',
    'baseline_off_cmd': 'cd /repo && /venv/bin/python -m pytest -ra -q -p no:cacheprovider --timeout=900 --continue-on-collection-errors',
    'source_commits': [],
    'add_only': True,
}
NOTES = ('Every check: TLC decides. Exit 0 held / 1 VIOLATION (an implementation execution rejected by the trace spec) / '
         '2 machinery failure. Known findings: /verif/known_findings.json. Seeded regressions: /verif/seeded/.')
NOT_APPLICABLE = {}
CHECKS = {
    'C01': {
        'text': 'Design model ConnTick.tla (one tick = one Threadless._run_once of the real handler; wires with capacity, short writes, '
                'peer read paces, half-close/close) is checked exhaustively by TLC for stream integrity in both directions (as built, '
                'with the two known findings excused by name, and in the intended design). tlc -simulate behaviours are replayed as '
                'environment schedules into the REAL LocalFdExecutor + HttpProtocolHandler + HttpProxyPlugin on in-memory sockets, '
                'with tick-level state comparison, and the recorded syscall traces (recv/queue/send/close with content-addressed '
                'payloads) are judged by TLC against Conn.tla via TraceConn.tla; a rejected trace names the clause it breaks. HTTP '
                'exchanges cover Content-Length, chunked (extensions, trailers), close-delimited, interim 1xx and several responses '
                'back to back; the tunnel schedules also run through the second relay implementation (BaseTcpTunnelHandler, '
                'examples/https_connect_tunnel.py), through proxy chaining (ProxyPoolPlugin) and in threaded mode. Kernel-socket part: '
                'REAL proxy processes in the three execution modes carry a tunnel with several MiB flowing both ways at once and a '
                'chunked multi-MiB response to fast and slow clients; TLC (TraceFlush) requires that what one side sent is what the '
                'other side received.',
        'design_ref': 'DESIGN.md section 6, C01',
        'note': 'Trusted: TLC, SimNet socket semantics (harness/simnet.py) standing in for the kernel, the reduction argument that '
                'peers act between loop iterations. TLS-wrapped relays are not exercised.',
        'technique': 'TLA+ design model (ConnTick) exhaustively checked by TLC + TLC-generated schedules replayed into the real handler + '
                     'TLC trace validation against Conn.tla',
    },
    'C07': {
        'text': 'Same pipeline as C01 on the scenario families in which the proxy ends the connection after producing output '
                '(proxy-made response queued in 1..n pieces with must-flush; upstream data then upstream close; tunnel): ConnTick '
                'exhaustively checked for NoDropToClient / NoReadWhileFlushing and, under weak fairness, for delivery and closing; '
                'generated schedules replayed on the real handler; syscall traces validated by TLC against the C07 clauses of '
                'Conn.tla (close only after everything queued was accepted by send, promptness within 2 loop iterations). Kernel-socket '
                'part: REAL proxy processes in the three execution modes relay multi-MiB close-delimited / Content-Length responses, '
                'a tunnel stream and a static file to clients reading fast, slowly or late while the origin closes right after its '
                'last byte; TLC (TraceFlush) requires everything owed, unmodified, then a prompt end-of-stream. Reaper part (SimNet, both '
                'modes): a client that does not read lets a tunnel stream / close-delimited response pile up in the proxy, the upstream '
                'goes, the clock passes --timeout and the inactivity reaper sweeps once or three times, then the client reads on: '
                'TraceFlush requires everything that was queued, then end-of-stream.',
        'design_ref': 'DESIGN.md section 6, C07',
        'note': 'Trusted: TLC, SimNet socket semantics, reduction argument. Threaded mode and TLS clients are not exercised here.',
        'technique': 'TLA+ design model (ConnTick, safety + liveness) + TLC-generated schedules replayed into the real handler + '
                     'TLC trace validation against Conn.tla',
    },
    'C02': {
        'text': 'Conversations of 1..3 grammar-generated proxy requests (all framings, header casing/spacing variants, proxy headers, '
                'operator-disabled headers, with/without proxy auth) go through the REAL handler + HttpProxyPlugin on in-memory sockets, '
                'each request delivered in seeded pieces (whole, cuts inside line ends, random cuts, one byte per segment), origin '
                'answering in lock step. TLC (TraceForward) parses BOTH what the client sent and what the origin received with the '
                'TLA+ reference parser and decides Expected(request, configuration): method, origin-form target, version, header set '
                'minus proxy-authorization / proxy-connection / disabled plus Via, decoded body, sane framing, for every position.',
        'design_ref': 'DESIGN.md section 6, C02',
        'note': 'Trusted: TLC, SimNet. Byte-exhaustive cut positions are covered by C03; several requests in one segment by C04.',
        'technique': 'TLA+ reference parser + Expected relation (TraceForward) deciding recorded conversations of the real forward proxy',
    },
    'C04': {
        'text': 'Design model Persist.tla (client script of 1..3 requests naming origin/route a or b, bytes cut into units, ANY packing of '
                'units into segments, origins answering at their own pace, head-of-line relaying) checked exhaustively by TLC for '
                'OneResponsePerRequestInOrder, RightOrigin and, under fairness, AllAnswered. tlc -simulate behaviours (free packing/timing '
                'and polite clients) are executed as environment schedules against the REAL handler in four roles (forward proxy, web '
                'server with two route plugins, reverse proxy with two upstream routes, reverse proxy mixing an upstream route with a '
                'self-answered route), every fourth history also in threaded mode; TLC (TracePersist) compares the settled outcome with '
                'Expected(script).',
        'design_ref': 'DESIGN.md section 6, C04',
        'note': 'Trusted: TLC, SimNet. Three design-level defects are listed as known findings (requests sharing a segment; forward proxy '
                'follow-up to another origin; reverse proxy with overlapping requests) and mask other violations inside exactly those classes.',
        'technique': 'TLA+ design model (Persist, safety + liveness) + TLC-generated schedules executed on the real handler in four roles + '
                     'TLC trace validation (TracePersist)',
    },
    'C05': {
        'text': 'Design model Executor.tla (Threadless loop over black-box works whose calls return or raise; FIX = FALSE, the code as '
                'first found, violates LoopSurvives at get_events / is_inactive / shutdown - kept as a vacuity guard; FIX = TRUE satisfies '
                'LoopSurvives, NoResidue and, under fairness, CanaryCompletes). (i) tlc -simulate behaviours are executed step by step on '
                'the REAL LocalFdExecutor with scripted works raising where the behaviour says; TLC (TraceExecutor) validates the abstract '
                'state after every step. (ii) the REAL handler stack: adversarial connections (C06 input grammar, aborts at every point, '
                'every socket error at every call, failing upstreams; forward/tunnel/web/reverse; upgraded WebSocket connections whose segments end '
                'inside a frame) share the worker with a canary and are '
                'followed by another connection; TLC (TraceIsolation) compares with the canary alone. The model also covers descriptors '
                'that vanish from the selector, event-mask changes and a work that replaces its descriptor (NoStaleRegistrations); every '
                'adversary job runs under a watchdog, so a worker that never returns is a reported stall, not a hung check.',
        'design_ref': 'DESIGN.md section 6, C05',
        'note': 'Trusted: TLC, SimNet, reduction argument. Blocking TLS handshakes (interception) are not exercised (F18, DESIGN.md).',
        'technique': 'TLA+ design model (Executor, fault enumeration over call sites) + TLC-generated fault schedules executed on the real '
                     'Threadless with TLC trace validation + adversary/canary differential on the real handler stack judged by TLC',
    },
    'C06': {
        'text': 'Builder half: the argument space of okResponse (compression threshold from both sides, reused header dictionaries), '
                'redirects, HttpRequestRejected.response, exception responses and the canned packets is executed and every response is '
                'judged by the TLA+ reference parser (TraceCodec op response: status line, header lines, single numeric Content-Length, '
                'never with chunked, body length = framing, advertised content-encoding real). Handler half: token-level mutations of '
                'valid requests, truncations, byte mutations and random bytes in forward / tunnel / web roles under several '
                'segmentations run through the REAL handler; TLC (TraceInput) parses everything the client received: a sequence of '
                'well-formed responses, nothing partial, Connection: close => last and followed by end-of-stream, a clean complete '
                'request never left without reaction, worker alive. Also behind --enable-proxy-protocol (valid, damaged, over-long, '
                'version 2, missing PROXY lines), token-spliced framing fields, and under a watchdog: an input the worker never returns '
                'from is a violation.',
        'design_ref': 'DESIGN.md section 6, C06',
        'note': 'Trusted: TLC, SimNet, CPython zlib. Inputs are sampled from the grammar (hundreds quick, thousands thorough), not exhaustive.',
        'technique': 'TLA+ reference parser as the independent HTTP parser (TraceCodec / TraceInput) deciding recorded builder outputs and '
                     'recorded connections fed with grammar-mutated inputs',
    },
    'C08': {
        'text': 'Authorized(headers, credentials) is defined in TLA+ (TraceAuth) from the RAW configured user:password (base64 computed in '
                'TLA+) and the reference parse of the client bytes. Every credential situation (absent, scheme casings, other schemes, '
                'token truncated/extended/case-flipped/re-encoded, extra parameters, duplicates) x header-name casing x method incl. '
                'CONNECT x segmentation x with/without a recording user plugin x whole / 24-byte sends (the 407 leaving in several writes) runs '
                'through the REAL handler with flags from the real '
                'FlagParser; TLC decides: unauthenticated => well-formed 407 + close, no connect, nothing forwarded, no later-plugin hook; '
                'authenticated => served, credentials never reach the origin (first and later request).',
        'design_ref': 'DESIGN.md section 6, C08',
        'note': 'Trusted: TLC, SimNet. Conflicting duplicate credential lines and tab separators are left unconstrained.',
        'technique': 'TLA+ definition of Authorized + outcome clauses (TraceAuth) deciding recorded conversations of the real proxy with auth on',
    },
    'C03': {
        'text': 'Reference one-shot semantics of HTTP/1.x messages written in TLA+ (Http.tla: start line, headers, Content-Length / '
                'chunked framing with extensions and trailers, message end, remainder). The ideal incremental parser is accumulate + '
                'Parse. Every message of a grammar-generated corpus is fed to the REAL HttpParser / ChunkParser in one piece, in every '
                '2-piece and (short messages) every 3-piece segmentation, one byte per piece and random multi-cuts; TLC (TraceParse) '
                'judges each recorded segmentation: completion reported exactly at the piece holding the last byte, final state equal '
                'to the one-piece state, remainder equal to the reference remainder. Requests are also fed behind a PROXY protocol v1 '
                'line (--enable-proxy-protocol).',
        'design_ref': 'DESIGN.md section 6, C03',
        'note': 'Trusted: TLC and the JSON bridge. Bounded: messages up to ~150 bytes, all cuts into <= 3 pieces for messages <= 60 '
                '(quick) / 90 (thorough) bytes, sampled beyond; close-delimited framing excluded by the property.',
        'technique': 'TLA+ reference parser (Http.tla) + TLC batch validation (TraceParse) of recorded segmented executions of the real parser',
    },
    'C09': {
        'text': 'Design model PluginChain.tla of the plugin chain of one connection (before_upstream_connection -> resolve_dns -> connect -> '
                'handle_client_request -> forward -> handle_upstream_chunk -> access-log chain -> on_upstream_connection_close; '
                'handle_client_data for further client data when no upstream was wanted) over '
                'PROGRAMS (each plugin passes / modifies / drops / rejects per hook) x auth x endings x 3 requests; TLC checks '
                'ChainOrder, SeenChain, DropSuppresses, RejectClean, BadAuthClean, LifecycleOnce, DnsFirstWins exhaustively. tlc -simulate behaviours '
                'name programs; plugin classes are synthesised from them and the REAL handler + HttpProxyPlugin execute the conversation; '
                'the recorded hook-call log (with the modifications each hook saw), connects, forwarded requests and client output are '
                'stepped through the same actions by TLC (TraceChain), with the design invariants evaluated on every trace state.',
        'design_ref': 'DESIGN.md section 6, C09',
        'note': 'Trusted: TLC, SimNet. Programs bounded (<= MAXDEV deviating hooks per plugin, 1..3 plugins); lock-step origin.',
        'technique': 'TLA+ design model (PluginChain) exhaustively checked + TLC-generated programs executed on the real plugin chain + '
                     'TLC trace validation (TraceChain) of the recorded hook-call logs',
    },
    'C10': {
        'text': 'Resources.tla states the descriptor discipline of one connection (open / register / unregister / close / end over '
                'descriptor NUMBERS that the kernel reuses) and TLC checks NoResidue and NeverTwice exhaustively. Connection histories - '
                'every script of every role (forward, tunnel, web, reverse) x every prefix x every kind of abort (client close / reset / '
                'half-close, upstream close / reset / half-close, connect refusal / timeout / resolution failure / unreachable, every '
                'socket error injected at every call), keep-alive conversations and grammar-mutated inputs - run on the REAL handler '
                'stack; the connection is then ended (client leaves, idle timeout, reaper), garbage collected, a census taken, and the '
                'history repeated three times on the same worker. TLC (TraceRes) steps the descriptor-level event log through the '
                'discipline and judges census and growth. Also: reverse-proxy conversations that switch upstreams, non-UTF-8 request / '
                'response fields, and threaded-mode shutdowns whose final blocking flush meets a socket error.',
        'design_ref': 'DESIGN.md section 6, C10',
        'note': 'Trusted: TLC, SimNet descriptor numbering / finalisation / selector semantics. Remote executors are not exercised. One '
                'known finding (reverse proxy replaces its upstream without closing it).',
        'technique': 'TLA+ resource discipline (Resources) exhaustively checked + TLC trace validation (TraceRes) of descriptor-level logs '
                     'and census of enumerated connection histories with aborts and injected faults',
    },
    'C11': {
        'text': 'Tls.tla models the interception protocol over facts (origin certificate situation x insecure switch x per-request opt-out '
                'x certificate cache x host kind); TLC checks NeverTrustBad, LeafNamesHost and the liveness property EndsRight over the '
                'whole case table. RealNet: a REAL proxy process with the interception flags and a test CA, real TLS origins presenting '
                'a trusted / self-signed / wrong-name / expired certificate, a client that CONNECTs to a host name, an IPv4 literal '
                'and a bracketed IPv6 literal, completes TLS, has the presented certificate judged by the openssl CLI (chains to the interception CA, names '
                'the CONNECT host, is the origin own certificate), then sends a request inside TLS (GET, POST with Content-Length, chunked and empty chunked bodies, in one or several '
                'TLS records; small, chunked and multi-record responses); the first intercepted conversation per host meets a cold '
                'certificate cache, the others run concurrently against a warm one. TLC (TraceTls) '
                'decides per case: refused => no application data in either direction; intercepted => valid per-host leaf, request '
                'semantically intact at the origin, response intact; opted-out => opaque tunnel byte for byte.',
        'design_ref': 'DESIGN.md section 6, C11',
        'note': 'Trusted: TLC, OpenSSL (X.509 verification, name matching, expiry) through CPython ssl and the openssl CLI, the kernel. '
                'Cipher / protocol-version policy is not exercised.',
        'technique': 'TLA+ protocol model over certificate facts (Tls) + TLC validation (TraceTls) of facts recorded from real TLS '
                     'conversations through a real intercepting proxy process',
    },
    'C12': {
        'text': 'Expected(request, route table, rewrite option) is written in TLA+ (TraceReverse over Target.tla ParseUrl / UrlAuthority and '
                'the reference HTTP parser): some matching route decides, any of its URLs may be chosen (random.choice = nondeterminism of '
                'the specification), connection to the URL host and port (default by scheme), path = the URL path, method / remaining '
                'headers / body preserved, Host rewritten iff the option is on, response relayed unmodified, no match => 404 and no '
                'connection, literal dynamic routes answered as is without connection. Route tables (static routes with 1..3 URLs '
                'with/without port and path, http and https, IPv4/IPv6 literals, userinfo; dynamic URL and literal routes; overlapping '
                'prefixes; routes whose upstreams share the host and differ in the port only) x paths matching none/one/several x '
                'methods x bodies x both rewrite settings, one to four requests per connection, run through the REAL handler + ReverseProxy; TLC decides each recorded connection.',
        'design_ref': 'DESIGN.md section 6, C12',
        'note': 'Trusted: TLC, SimNet. Route regexes are literal prefixes; for https upstreams only the connection attempt is observable.',
        'technique': 'TLA+ Expected relation over a reference URL / HTTP parser (TraceReverse) deciding recorded reverse-proxy connections',
    },
    'C13': {
        'text': 'Reference path resolution in TLA+ (StaticPath.tla: query stripped at the first ?, dot-segment stack machine, no '
                'percent-decoding). Every path of up to 3 (quick) / 4 (thorough, sampled) segments over {file and directory names, ., .., '
                'empty, %2e%2e, ..%2f, a sibling directory carrying the root name as prefix} x query variants (incl. queries containing '
                '? and /../) x trailing slash is requested through the REAL handler + HttpWebServerPlugin against a real tree on disk '
                'with files inside, in sub-directories and just outside the root; gzip undone when advertised. TLC (TraceStatic) decides: '
                'outside => 404; 200 => content = the file the resolved path names (never an outside file), decodable; plain existing '
                'files are served whatever the query.',
        'design_ref': 'DESIGN.md section 6, C13',
        'note': 'Trusted: TLC, SimNet, CPython zlib, the file system. Symbolic links and paths re-entering through the root\'s own name '
                'are not generated.',
        'technique': 'TLA+ reference path resolution (StaticPath) + TLC validation (TraceStatic) of recorded static-server responses over an '
                     'enumerated path space',
    },
    'C14': {
        'text': 'Reference request-target parser in TLA+ (Target.tla: origin / absolute / authority form, reg-names, IPv4, bracketed IPv6, '
                'explicit / default ports, userinfo), independent of proxy/http/url.py. Targets generated from components (host '
                'spellings x ports incl. 0 and 65535 x userinfo variants x paths with reserved characters) plus damaged variants go '
                'through the REAL HttpParser and through the REAL handler + HttpProxyPlugin on in-memory sockets, where the outbound '
                'connection is observed at the socket-module seam (host string as handed to the OS layer, port, literal-or-name '
                'dispatch). TLC (TraceTarget) decides: derived host/port/path = reference, connection to exactly that host (IPv6 without '
                'brackets) and port, uninterpretable targets rejected and never connected. Sequence part (TraceTargetSeq): 2..4 '
                'absolute-form requests on ONE kept-alive client connection (origins sharing the host and differing in the port, sharing '
                'the port and differing in the host, one origin in two spellings, IPv6 literals), each answered by a faithful origin '
                'before the next is sent; every request must arrive over exactly one upstream connection, the one to the host and port '
                'its own target names.',
        'design_ref': 'DESIGN.md section 6, C14',
        'note': 'Trusted: TLC, SimNet. Unbracketed multi-colon hosts (patched up as IPv6 by the implementation, pinned by the repository '
                'tests) and absolute URLs as CONNECT target are left unconstrained.',
        'technique': 'TLA+ reference URL parser (Target.tla) + TLC validation (TraceTarget, TraceTargetSeq) of recorded parser results and '
                     'socket-level connects / per-request destinations on kept-alive connections',
    },
    'C15': {
        'text': 'Reference codec in TLA+ (Http.tla) whose own laws are model-checked exhaustively (CodecLaws: Dechunk o Enchunk = id for '
                'every body <= L over a chunk-syntax alphabet, every chunk size <= S, arbitrary tails; message laws). Recorded executions '
                'of the real builders, parser (both types), rebuild, to_chunks/ChunkParser (also fed in pieces) and update_body with '
                'gzip / identity / other encodings are judged by TLC (TraceCodec) against the reference: fields, body, framing '
                'consistency, single Content-Length, never Content-Length together with chunked.',
        'design_ref': 'DESIGN.md section 6, C15',
        'note': 'Trusted: TLC, JSON bridge, CPython zlib for gzip inflation (its extraction of the encoded body is cross-checked by the '
                'reference parser). Bounded argument space, sampled contents.',
        'technique': 'TLA+ reference codec with exhaustively model-checked laws (CodecLaws) + TLC batch validation (TraceCodec) of recorded '
                     'builder / parser / chunk-codec executions',
    },
    'C16': {
        'text': 'Every case of the enumerated frame space (all 512 flag x opcode x mask combinations at the length thresholds, '
                'every length 0..130, the 65530..65540 band, up to 1 MiB) is executed on the real WebsocketFrame.build/parse '
                'and judged byte for byte by TLC against an RFC 6455 encoder/decoder written in TLA+ (WsCodec.tla); accept '
                'tokens are recomputed by a SHA-1 state machine in TLA+ (Sha1.tla/TraceSha1.tla). Bounded-exhaustive over the '
                'abstract space, sampled payload contents. Live part: the real web server with a WebSocket echo route on SimNet - '
                'the accept token of its 101 response and the frames it sends back for masked client frames (one or several per '
                'segment) go through the same two trace specifications.',
        'design_ref': 'DESIGN.md section 6, C16',
        'note': 'Trusted: TLC, the JSON bridge, the CommunityModules Bitwise operators. Nothing of the implementation is trusted; '
                'SHA-1/base64 are specified in TLA+ and self-checked against the RFC 6455 example.',
        'technique': 'TLA+ reference codec (WsCodec/Sha1) + TLC batch validation of recorded build/parse executions',
    },
    'C17': {
        'text': 'Dispatch.tla models the one place where the execution modes differ: the hand-off of an accepted connection (address + '
                'descriptor as two pipe messages from concurrent senders to a remote worker, one object in the other modes); TLC checks '
                'PairsMatch and AllHandedOver with the per-worker lock and requires PairsMatch to FAIL without it (vacuity guard). The REAL '
                'delegate_work_to_pool is called with recording lock / pipe / send_handle and TLC (TraceModes) checks the locked discipline '
                'on the recorded call log. RealNet differential: REAL proxy processes in threaded, local-threadless and remote-threadless '
                'mode x {1,2,(4)} acceptors / workers serve a corpus of 16..18 conversations (forward GET / POST / chunked / keep-alive / '
                'segmented / 2 MiB response, CONNECT tunnel, failing upstreams, malformed and unauthenticated requests, web 404, reverse '
                'proxy, half-close, truncated request), one by one and with concurrent clients; TLC compares the per-connection '
                'transcripts ACROSS MODES (client bytes, end-of-stream, what the origins received, by tag).',
        'design_ref': 'DESIGN.md section 6, C17',
        'note': 'Trusted: TLC, the kernel, loopback timing (reads wait up to 8 s for the first byte and end after 0.5 s of silence). OS '
                'scheduling beyond concurrent clients is not explored; deviations common to all modes are reported by other properties.',
        'technique': 'TLA+ hand-off model (Dispatch) + TLC validation of the recorded delegate call log + differential comparison by TLC of '
                     'transcripts from real proxy processes in the three modes',
    },
    'C18': {
        'text': 'Design model EventBus.tla (one FIFO queue, dispatcher table, per-subscription channels, breakage) checked exhaustively by '
                'TLC over all interleavings of subscribe, unsubscribe (known / unknown / repeated ids), publish, break and dispatch for '
                '2 subscribers x 7 operations (quick) and 3 subscribers x 9 operations (thorough, 11.5 M states): ExactlyOnceInOrder, '
                'NothingLost, DispatcherAlive and the action property BreakIsolated. tlc -simulate behaviours are executed step by step on '
                'the REAL EventQueue + EventDispatcher with real multiprocessing pipes (break = reader closes its end); TLC (TraceBus) '
                'requires the state observed after every step (dispatcher table, deliveries per channel, dispatcher alive) to be the '
                'model\'s successor state, and re-evaluates the design invariants on every trace state. Live part: the same histories '
                '(subscribe / unsubscribe / publish) drive a real EventManager (dispatcher thread, multiprocessing.Queue) and real '
                'EventSubscriber objects (relay threads, callbacks); TLC (TraceBusLive) replays the recorded operations through the '
                'actions of EventBus.tla and requires, per subscription, the callback arguments to be exactly the events the model delivers.',
        'design_ref': 'DESIGN.md section 6, C18',
        'note': 'Trusted: TLC, the kernel pipe semantics (BrokenPipeError on a closed reader). In the step-wise part the dispatcher is '
                'driven through handle_event; in the live part one thread issues all operations (queue order = issue order).',
        'technique': 'TLA+ design model (EventBus) exhaustively checked + TLC-generated histories executed on the real dispatcher with '
                     'step-wise TLC trace validation (TraceBus)',
    },
    'C19': {
        'text': 'Design model Lifecycle.tla walks the ordered steps of Proxy.setup / shutdown over the configuration space (1..2 listening '
                'addresses, fixed or OS-assigned primary port, 0..3 additional ports fixed or OS-assigned, Unix socket, pid / port '
                'files: 144 valid configurations) and TLC checks Up, Down and the liveness property ReachesUpThenDown. For sampled '
                'configurations x execution modes (local-threadless, remote-threadless, threaded) a REAL embedded Proxy is set up and shut '
                'down; the facts are observed from outside its bookkeeping (the listening sockets of the process from /proc/net/tcp{,6} '
                'matched against /proc/self/fd, connect() probes, multiprocessing children, files on disk) and TLC (TraceLifecycle) '
                'decides: endpoints = hosts x ports and all accept, reported primary = bound primary and first in the port file, '
                'reported ports = bound ports exactly, after shutdown nothing accepts, no socket, no child, no file.',
        'design_ref': 'DESIGN.md section 6, C19',
        'note': 'Trusted: TLC, the kernel, /proc. Loopback addresses only; one acceptor and worker per run; ~40 (quick) configurations.',
        'technique': 'TLA+ lifecycle model over the configuration space + TLC validation (TraceLifecycle) of facts observed around real '
                     'Proxy.setup()/shutdown() runs',
    },
    'C20': {
        'text': 'Design model Idle.tla (integer clock, last client-side traffic, pending output behind a full client wire, periodic sweep) '
                'checked exhaustively by TLC for ReapedOnlyIfIdle (action property) and NeverWithPending over all timed traces with '
                'events placed at threshold -1 / 0 / +1. tlc -simulate timed traces are executed on the REAL handler (established CONNECT '
                'tunnel on in-memory sockets, virtual clock patched over time.time, client wire of CAP units, Reap = the executor\'s own '
                '_cleanup_inactive); TLC (TraceIdle) requires after every step that the connection is closed exactly when the model says: '
                'never reaped with client-side traffic within the timeout or with pending output, always reaped by the first sweep after '
                'the timeout has elapsed. Arrivals the TLS layer cannot deliver yet (the read answers want-read) count as client traffic.',
        'design_ref': 'DESIGN.md section 6, C20',
        'note': 'Trusted: TLC, SimNet, the virtual clock. The tick arithmetic of _run_forever that decides when sweeps happen and the '
                'threaded-mode loop are not exercised (they share is_inactive / last_activity with this path).',
        'technique': 'TLA+ timed design model (Idle) exhaustively checked + TLC-generated timed traces executed on the real handler with '
                     'step-wise TLC trace validation (TraceIdle)',
    },
}
