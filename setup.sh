#!/bin/sh
# Offline setup: nothing to build; parse every specification with SANY so a broken spec is caught here.
cd "$(dirname "$0")" || exit 2
exec /venv/bin/python -m harness.setup
